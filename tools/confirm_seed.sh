#!/bin/bash
# usage: tools/confirm_seed.sh <dir with patch.diff demo.py notes.md> <seed-id> <property> 
# Confirms in a scratch worktree: demo passes without the change, test-suite passes with it, demo fails with it.
src=$1; id=$2; prop=$3
wt=$(mktemp -d /tmp/cs-XXXXXX); rmdir $wt
git -C /repo worktree add -q --detach $wt HEAD || exit 3
cd $wt
PYTHONPATH=$wt /venv/bin/python $src/demo.py >/dev/null 2>&1; d0=$?
git apply $src/patch.diff || { echo "patch does not apply"; cd /; git -C /repo worktree remove --force $wt; exit 3; }
/venv/bin/python -m pytest -q -p no:cacheprovider -x test >/tmp/cs-pytest.$$ 2>&1; t=$?
tests=$(tail -1 /tmp/cs-pytest.$$); rm -f /tmp/cs-pytest.$$
PYTHONPATH=$wt /venv/bin/python $src/demo.py >/dev/null 2>&1; d1=$?
cd /; git -C /repo worktree remove --force $wt
echo "$id: demo-without=$d0 tests-with=$t ($tests) demo-with=$d1"
if [ $d0 -eq 0 ] && [ $t -eq 0 ] && [ $d1 -ne 0 ]; then
  mkdir -p /verif/seeded/$id
  cp $src/patch.diff $src/demo.py /verif/seeded/$id/; [ -f $src/README.txt ] && cp $src/README.txt /verif/seeded/$id/notes.md
  [ -f $src/notes.md ] && cp $src/notes.md /verif/seeded/$id/
  echo CONFIRMED
else
  echo NOT-CONFIRMED
fi
