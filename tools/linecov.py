#!/venv/bin/python
"""Reach measure: which lines of canopen do the simulated runs of a check execute?

usage: tools/linecov.py [--json OUT] [-n RUNS] [ID ...]      (default: all claimed checks, 400 jobs each)

Runs the first RUNS/2 enumerated jobs and RUNS/2 seeded jobs of each check in
this process under sys.settrace, collects (file, line) inside the canopen
package selected by VERIF_REPO, and prints per file the executable lines never
reached (by any of the checks run).  Not a check: a tool for finding blind
spots of the workloads.  Slow (line tracing), hence the small sample.
"""
import os
import sys
import threading

HERE = os.path.dirname(os.path.dirname(os.path.abspath(__file__)))
sys.path.insert(0, HERE)
if os.environ.get("PYTHONHASHSEED") != "0":
    os.environ["PYTHONHASHSEED"] = "0"
    os.execv(sys.executable, [sys.executable] + sys.argv)

from simcan import patch, runner, selftest      # noqa: E402


def executable_lines(path):
    """Lines inside function bodies (module and class bodies run at import time,
    before tracing starts, and are left out of the measure)."""
    src = open(path).read()
    code = compile(src, path, "exec")
    lines = set()
    todo = [code]
    while todo:
        c = todo.pop()
        if c.co_flags & 0x1:        # CO_OPTIMIZED: a function body
            for _, _, ln in c.co_lines():
                if ln is not None and ln > 0:
                    lines.add(ln)
        for k in c.co_consts:
            if hasattr(k, "co_code"):
                todo.append(k)
    return lines


def main():
    args = sys.argv[1:]
    n = 400
    dump = None
    if args and args[0] == "--json":
        dump = args[1]
        args = args[2:]
    if args and args[0] == "-n":
        n = int(args[1])
        args = args[2:]
    ids = [a.upper() for a in args] or selftest.ALL
    patch.install()
    import canopen
    root = os.path.dirname(canopen.__file__)
    hit = {}

    def tracer(frame, event, arg):
        fn = frame.f_code.co_filename
        if not fn.startswith(root):
            return None
        s = hit.get(fn)
        if s is None:
            s = hit[fn] = set()

        def local(frame, event, arg):
            if event == "line":
                s.add(frame.f_lineno)
            return local
        s.add(frame.f_lineno)
        return local

    from simcan.core import Ctx
    Ctx.line_root = root

    def hook(frame):
        fn = frame.f_code.co_filename
        s = hit.get(fn)
        if s is None:
            s = hit[fn] = set()
        s.add(frame.f_lineno)
    Ctx.line_hook = staticmethod(hook)
    per_check = {}
    for pid in ids:
        prop = runner.load_prop(pid)
        runner.PARAMS["tier"] = "quick"
        enum, n_seeded = runner.plan(prop, pid, "quick", 0)
        idx = list(range(0, len(enum), max(1, len(enum) // (n // 2))))[: n // 2]
        idx += list(range(len(enum), len(enum) + n - len(idx)))
        before = {k: set(v) for k, v in hit.items()}
        threading.settrace(tracer)
        sys.settrace(tracer)
        try:
            for i in idx:
                _, prefix, rseed, _ = runner.job_at(pid, 0, enum, i)
                runner.run_one(prop, prefix, rseed)
        finally:
            sys.settrace(None)
            threading.settrace(None)
        per_check[pid] = sum(len(v - before.get(k, set())) for k, v in hit.items())
        print("%s: %d jobs traced, %d new lines" % (pid, len(idx), per_check[pid]), flush=True)
    print()
    if dump:
        import json
        with open(dump, "w") as f:
            json.dump({os.path.relpath(k, root): sorted(v) for k, v in hit.items()}, f)
    tot_e = tot_h = 0
    for dirpath, _, files in sorted(os.walk(root)):
        for f in sorted(files):
            if not f.endswith(".py"):
                continue
            p = os.path.join(dirpath, f)
            ex = executable_lines(p)
            h = hit.get(p, set()) & ex
            tot_e += len(ex)
            tot_h += len(h)
            miss = sorted(ex - h)
            rel = os.path.relpath(p, root)
            # compress into ranges
            rng = []
            for ln in miss:
                if rng and ln == rng[-1][1] + 1:
                    rng[-1][1] = ln
                else:
                    rng.append([ln, ln])
            print("%-34s %4d/%4d  missing: %s" % (rel, len(h), len(ex), " ".join("%d" % a if a == b else "%d-%d" % (a, b) for a, b in rng)))
    print("total %d/%d executable lines reached" % (tot_h, tot_e))


if __name__ == "__main__":
    main()
