#!/bin/bash
# usage: tools/round.sh <round dir> <PID> <suffixA> <suffixB> [budget]
# Takes what a sub-agent left in <round dir>/<PID>-out/{A,B}, confirms each change in a scratch worktree
# (tools/confirm_seed.sh: demo passes without, test-suite passes with, demo fails with), keeps the confirmed
# ones as seeded/<PID>-<suffix>1 and runs the property's check against them (tools/try_mutant.sh).
rd=$1; pid=$2; sa=$3; sb=$4; budget=${5:-25}
V="$(dirname "$(readlink -f "$0")")/.."
for pair in "A:$sa" "B:$sb"; do
  sub=${pair%%:*}; suf=${pair##*:}
  src=$rd/$pid-out/$sub
  [ -f $src/patch.diff ] || { echo "$pid-$suf: no patch delivered"; continue; }
  n=1; while [ -d $V/seeded/$pid-$suf$n ]; do n=$((n+1)); done
  id=$pid-$suf$n
  $V/tools/confirm_seed.sh $src $id $pid | tail -2
  [ -d $V/seeded/$id ] || continue
  $V/tools/try_mutant.sh $V/seeded/$id/patch.diff $budget $pid
done
