#!/venv/bin/python
"""Regenerate /verif/MANIFEST.json from the property modules that exist."""
import json, os, sys
V = os.path.dirname(os.path.dirname(os.path.abspath(__file__)))
sys.path.insert(0, V)
NA = {
 "C04": "The data-type codec is a pure function of (type, value/bytes): no schedule, clock, peer, I/O or fault exists for a simulator to control; deciding it is input enumeration, not simulation.",
 "C05": "PDO bit-field read/write is a pure function of (layout, frame bytes, value) on an in-memory bytearray; nothing to schedule or to fault.",
 "C08": "EDS/DCF import is a pure text -> object-dictionary function; the quantifier is over inputs and configurations only.",
 "C14": "Export -> import round trip is a pure function of the dictionary; the three destinations involve no fault or ordering the statement speaks about.",
 "C20": "phys/desc/bits views are pure arithmetic over a raw value; running them over SDO and PDO variables adds a fault-free transport, not a schedule or fault dimension.",
}
TEXT = json.load(open(os.path.join(V, "tools", "manifest_text.json")))
props = [json.loads(l) for l in open(os.path.join(V, "properties.jsonl"))]
claimed = [p["id"] for p in props if os.path.exists(os.path.join(V, "simcan", "props", p["id"].lower() + ".py")) and p["id"] in TEXT]
m = {
 "version": 1,
 "setup_cmd": "/venv/bin/python /verif/check setup",
 "hooks": {"guard": "CANOPEN_VERIF_SIM",
           "enable": "no hook exists in /repo: every seam is a module global (time/queue/threading inside canopen's modules), Network(bus=...) or BusABC._send_periodic_internal; /verif/simcan/patch.py installs the simulator there at import time, inside the check process only (the variable is informational, nothing in /repo reads it)",
           "baseline_off_cmd": "cd /repo && /venv/bin/python -m pytest -ra -q -p no:cacheprovider --timeout=900 --continue-on-collection-errors",
           "source_commits": [], "add_only": True},
 "engines": [{"name": "simcan", "path": "/verif/simcan", "serves_properties": claimed,
              "kind_free_text": "deterministic discrete-event simulator for canopen: virtual clock, seeded choice tape, simulated CAN segment with fault-injecting transport, inline (Mode I) and baton-passing threaded (Mode T) execution, reference peers written from CiA 301/305/402, span-based shrinker, replay files"}],
 "checks": [], "not_applicable": [],
 "notes": "DESIGN.md explains the approach; known_findings.json lists defects found (all repaired by 'fix:' commits in /repo unless status=open); seeded/ holds independently written breaking changes and which checks catch them.",
}
for p in props:
    pid = p["id"]
    if pid in claimed:
        t = TEXT[pid]
        m["checks"].append({
            "property_id": pid,
            "quick_cmd": "/venv/bin/python /verif/check %s --tier quick" % pid,
            "thorough_cmd": "/venv/bin/python /verif/check %s --tier thorough" % pid,
            "evidence_file": "/verif/evidence/%s.json" % pid,
            "replay_cmd_template": "/venv/bin/python /verif/check %s --replay {path}" % pid,
            "engine": "simcan",
            "level_claimed": {"category": t["level"], "text": t["text"], "design_ref": "DESIGN.md section 4, " + pid},
            "level_note": t["note"],
            "technique": "deterministic simulation with fault injection: " + t["technique"],
        })
    elif pid in NA:
        m["not_applicable"].append({"property_id": pid, "reason": NA[pid]})
    else:
        m["not_applicable"].append({"property_id": pid, "reason": "not claimed yet: the simulation check for this property is still under construction (its design is in DESIGN.md section 4)"})
json.dump(m, open(os.path.join(V, "MANIFEST.json"), "w"), indent=1)
print("claimed:", claimed)
