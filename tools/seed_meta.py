#!/venv/bin/python
"""Write /verif/seeded/<id>/meta.json from tools/seeds.json (one table for all seeded changes)."""
import json, os
V = os.path.dirname(os.path.dirname(os.path.abspath(__file__)))
T = json.load(open(os.path.join(V, "tools", "seeds.json")))
for sid, m in T.items():
    d = os.path.join(V, "seeded", sid)
    if not os.path.isdir(d):
        continue
    m = dict(m)
    m["id"] = sid
    m.setdefault("confirmed_by", "tools/confirm_seed.sh in a scratch worktree of /repo HEAD: demo.py exits 0 without the change; with the change the repository's test-suite still passes (164 passed, 1 skipped) and demo.py exits non-zero")
    m.setdefault("how_run", "tools/try_mutant.sh seeded/%s/patch.diff <budget> %s  (patch applied to a scratch worktree, check run with VERIF_REPO pointing there, worktree removed)" % (sid, " ".join(m.get("caught_by", []) or [m["property"]])))
    json.dump(m, open(os.path.join(d, "meta.json"), "w"), indent=1)
print("ok")
