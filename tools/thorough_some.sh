#!/bin/bash
# usage: tools/thorough_some.sh <seed> <budget_s> <PID>...   - thorough tier of the named checks with a wall budget each
seed=$1; budget=$2; shift 2
cd "$(dirname "$(readlink -f "$0")")/.."
for P in "$@"; do
  out=$(VERIF_SEED=$seed timeout 3600 ./check $P --tier thorough --budget $budget 2>&1); rc=$?
  echo "$P rc=$rc $(echo "$out" | grep -E "thorough:" | cut -c1-220)"
  echo "$out" | grep -E "^VIOLATION|^KNOWN|HARNESS|^violation class" | head -6
done
