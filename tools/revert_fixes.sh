#!/bin/bash
# usage: tools/revert_fixes.sh [budget_s]
# For every 'fixed' entry of known_findings.json: revert that fix commit in a scratch worktree of /repo HEAD
# (never in /repo), run the property's check against it and report whether the violation comes back.
budget=${1:-30}
V="$(dirname "$(readlink -f "$0")")/.."
/venv/bin/python - "$V" <<'P' > /tmp/revert-list.$$
import json,sys
d=json.load(open(sys.argv[1]+"/known_findings.json"))
seen=set()
for f in d["findings"]:
    if f["status"]=="fixed" and (f["commit"],f["property"]) not in seen:
        seen.add((f["commit"],f["property"]))
        print(f["commit"], f["property"], f["key"])
P
while read c p key; do
  wt=$(mktemp -d /tmp/rev-XXXXXX); rmdir $wt
  git -C /repo worktree add -q --detach $wt HEAD || exit 3
  if git -C $wt revert --no-commit $c >/dev/null 2>&1; then
    out=$(cd "$V" && VERIF_REPO=$wt VERIF_EVIDENCE_DIR=$wt/.evidence VERIF_REPLAY_DIR=$wt/.replays timeout 1200 ./check $p --budget $budget 2>&1)
    if echo "$out" | grep -q "^VIOLATION property=$p"; then
      k=$(echo "$out" | grep "^violation class" | head -1 | cut -d: -f1 | sed 's/violation class //')
      echo "$c $p: violation is back ($k)"
    else
      echo "$c $p: NOT REPORTED after reverting the fix"
    fi
  else
    echo "$c $p: revert conflicts with a later fix (skipped)"
  fi
  git -C /repo worktree remove --force $wt
done < /tmp/revert-list.$$
rm -f /tmp/revert-list.$$
