#!/venv/bin/python
"""Systematic sensitivity measurement: small syntactic changes to canopen.

usage: tools/mutate.py list                       enumerate candidate mutants -> mutation/mutants.json
       tools/mutate.py run [--jobs J] [--limit N] [--budget S] [--only FILE] [--resume]
                                                  pytest filter + checks, results -> mutation/results.jsonl
       tools/mutate.py report                     summary table from results.jsonl

A mutant is one change of one AST node (comparison, arithmetic/bit operator,
boolean operator, negation, integer constant +-1, boolean constant, condition
negated, statement deleted) inside a function body of a file anchored by a
claimed property, on a line that the sampled runs of the checks reach
(mutation/reach.json from tools/linecov.py).  For each mutant, in a private copy
of /repo outside /repo and /verif:
  1. the repository's own test-suite is run; a mutant that fails it is "killed-by-tests"
     (not interesting: the brief asks for changes that still pass the tests);
  2. the checks mapped to the file run with a small budget and VERIF_REPO
     pointing to the copy, first VIOLATION wins -> "caught";
  3. otherwise "survived" - to be triaged by hand (equivalent / outside every
     statement / blind spot).
Nothing is ever written to /repo.  Not a check; its results are recorded in DESIGN.md.
"""
import ast
import json
import os
import random
import shutil
import subprocess
import sys
import tempfile

V = os.path.dirname(os.path.dirname(os.path.abspath(__file__)))
REPO = os.path.realpath(os.environ.get("VERIF_REPO", "/repo"))
OUT = os.path.join(V, "mutation")

FILES = {
    "sdo/client.py": ["C01", "C07", "C12", "C13", "C06", "C03"],
    "sdo/server.py": ["C02", "C06", "C07", "C03"],
    "sdo/base.py": ["C03", "C01"],
    "node/local.py": ["C02", "C06", "C10", "C16", "C17", "C11", "C03"],
    "node/remote.py": ["C10", "C09"],
    "node/base.py": ["C10"],
    "variable.py": ["C03", "C15"],
    "network.py": ["C10", "C17", "C18", "C03"],
    "nmt.py": ["C11", "C17"],
    "emcy.py": ["C16"],
    "lss.py": ["C18"],
    "pdo/base.py": ["C15", "C09", "C17"],
    "pdo/__init__.py": ["C09", "C15"],
    "profiles/p402.py": ["C19"],
    "sync.py": ["C17"],
}

CMP = {ast.Lt: ast.LtE, ast.LtE: ast.Lt, ast.Gt: ast.GtE, ast.GtE: ast.Gt, ast.Eq: ast.NotEq, ast.NotEq: ast.Eq,
       ast.Is: ast.IsNot, ast.IsNot: ast.Is, ast.In: ast.NotIn, ast.NotIn: ast.In}
BIN = {ast.Add: ast.Sub, ast.Sub: ast.Add, ast.Mult: ast.FloorDiv, ast.FloorDiv: ast.Mult, ast.Mod: ast.FloorDiv,
       ast.BitAnd: ast.BitOr, ast.BitOr: ast.BitAnd, ast.LShift: ast.RShift, ast.RShift: ast.LShift, ast.BitXor: ast.BitAnd}
SKIP_FUNCS = {"__repr__", "__str__", "export", "get_desc"}


def _is_logger_call(node):
    return (isinstance(node, ast.Call) and isinstance(node.func, ast.Attribute) and
            isinstance(node.func.value, ast.Name) and node.func.value.id in ("logger", "logging", "warnings"))


def candidates(relpath, src, reached):
    """Yield (lineno, col, end_lineno, end_col, operator name, replacement source)."""
    tree = ast.parse(src)
    out = []

    def seg(n):
        return ast.get_source_segment(src, n)

    def add(n, op, new_src):
        if n.lineno not in reached:
            return
        old = seg(n)
        if old is None or old == new_src:
            return
        out.append({"file": relpath, "line": n.lineno, "col": n.col_offset, "end_line": n.end_lineno, "end_col": n.end_col_offset,
                    "op": op, "old": old, "new": new_src})

    def visit(n, in_func, skip):
        if isinstance(n, (ast.FunctionDef, ast.AsyncFunctionDef)):
            if n.name in SKIP_FUNCS:
                return
            for d in n.body:
                visit(d, True, skip)
            return
        if isinstance(n, ast.ClassDef):
            for d in n.body:
                visit(d, False, skip)
            return
        if _is_logger_call(n) or isinstance(n, (ast.JoinedStr, ast.Raise, ast.Assert)):
            # log texts, f-strings, exception messages: no behaviour the statements speak about
            if isinstance(n, ast.Raise) and in_func:
                add(n, "del-raise", "pass")
            return
        if in_func:
            if isinstance(n, ast.Compare) and len(n.ops) == 1 and type(n.ops[0]) in CMP:
                m = ast.Compare(left=n.left, ops=[CMP[type(n.ops[0])]()], comparators=n.comparators)
                add(n, "cmp", ast.unparse(m))
            elif isinstance(n, ast.BinOp) and type(n.op) in BIN:
                if not (isinstance(n.op, ast.Mod) and isinstance(n.left, ast.Constant) and isinstance(n.left.value, str)):
                    m = ast.BinOp(left=n.left, op=BIN[type(n.op)](), right=n.right)
                    add(n, "binop", ast.unparse(m))
            elif isinstance(n, ast.BoolOp):
                m = ast.BoolOp(op=ast.Or() if isinstance(n.op, ast.And) else ast.And(), values=n.values)
                add(n, "boolop", ast.unparse(m))
            elif isinstance(n, ast.UnaryOp) and isinstance(n.op, ast.Not):
                add(n, "not", ast.unparse(n.operand))
            elif isinstance(n, ast.Constant) and isinstance(n.value, bool):
                add(n, "bool", repr(not n.value))
            elif isinstance(n, ast.Constant) and isinstance(n.value, int) and not isinstance(n.value, bool):
                add(n, "int+1", repr(n.value + 1))
                if n.value > 0:
                    add(n, "int-1", repr(n.value - 1))
            elif isinstance(n, (ast.If, ast.While)) and not isinstance(n.test, (ast.Compare, ast.BoolOp, ast.UnaryOp, ast.Constant)):
                add(n.test, "negate-cond", "not (%s)" % seg(n.test))
            if isinstance(n, ast.Expr) and isinstance(n.value, ast.Call) and not _is_logger_call(n.value):
                add(n, "del-call", "pass")
            elif isinstance(n, (ast.Assign, ast.AugAssign)) and n.lineno == n.end_lineno:
                add(n, "del-assign", "pass")
            elif isinstance(n, ast.Return) and n.value is not None and not (isinstance(n.value, ast.Constant) and n.value.value is None):
                add(n, "return-none", "return None")
            elif isinstance(n, ast.Break):
                add(n, "break-continue", "continue")
            elif isinstance(n, ast.Continue):
                add(n, "continue-break", "break")
        for fld, val in ast.iter_fields(n):
            if fld in ("annotation", "returns", "decorator_list"):
                continue
            if isinstance(val, list):
                for c in val:
                    if isinstance(c, ast.AST):
                        visit(c, in_func, skip)
            elif isinstance(val, ast.AST):
                visit(val, in_func, skip)

    visit(tree, False, False)
    # docstrings are Expr(Constant str): never added (only calls are deleted)
    return out


def apply(src, m):
    lines = src.split("\n")
    if m["line"] == m["end_line"]:
        l = lines[m["line"] - 1]
        # col offsets are in utf-8 bytes
        b = l.encode("utf-8")
        lines[m["line"] - 1] = (b[:m["col"]] + m["new"].encode("utf-8") + b[m["end_col"]:]).decode("utf-8")
    else:
        first = lines[m["line"] - 1].encode("utf-8")[:m["col"]].decode("utf-8")
        last = lines[m["end_line"] - 1].encode("utf-8")[m["end_col"]:].decode("utf-8")
        lines[m["line"] - 1:m["end_line"]] = [first + m["new"] + last]
    return "\n".join(lines)


def cmd_list():
    reach = json.load(open(os.path.join(OUT, "reach.json")))
    allm = []
    for rel in FILES:
        src = open(os.path.join(REPO, "canopen", rel)).read()
        ms = candidates(rel, src, set(reach.get(rel, [])))
        # keep only mutants that still compile
        ok = []
        for m in ms:
            try:
                compile(apply(src, m), rel, "exec")
                ok.append(m)
            except SyntaxError:
                pass
        allm += ok
        print("%-22s %4d candidates" % (rel, len(ok)))
    rnd = random.Random(20260923)
    rnd.shuffle(allm)
    for i, m in enumerate(allm):
        m["id"] = "M%04d" % i
    json.dump(allm, open(os.path.join(OUT, "mutants.json"), "w"), indent=0)
    print("total", len(allm))


def run_one(m, budget, workers):
    work = tempfile.mkdtemp(prefix="mutate-")
    try:
        tree = os.path.join(work, "repo")
        shutil.copytree(REPO, tree, ignore=shutil.ignore_patterns(".git", "__pycache__", "*.pyc", "doc", "examples", ".github"))
        path = os.path.join(tree, "canopen", m["file"])
        src = open(path).read()
        open(path, "w").write(apply(src, m))
        env = dict(os.environ, PYTHONDONTWRITEBYTECODE="1", PYTHONPATH=tree)
        try:
            t = subprocess.run([sys.executable, "-m", "pytest", "-x", "-q", "-p", "no:cacheprovider", "--timeout=120", "test"], cwd=tree, env=env,
                               capture_output=True, text=True, timeout=600)
            tests_ok = t.returncode == 0
        except subprocess.TimeoutExpired:
            tests_ok = False
        res = dict(m)
        if not tests_ok:
            res["verdict"] = "killed-by-tests"
            return res
        env2 = dict(os.environ, VERIF_REPO=tree, VERIF_EVIDENCE_DIR=os.path.join(work, "ev"), VERIF_REPLAY_DIR=os.path.join(work, "rp"),
                    VERIF_WORKERS=str(workers), VERIF_HANG_S="8")
        res["verdict"] = "survived"
        res["checks"] = {}
        for pid in FILES[m["file"]]:
            try:
                c = subprocess.run([os.path.join(V, "check"), pid, "--budget", str(budget)], env=env2, capture_output=True, text=True, timeout=900)
                out = c.stdout
                rc = c.returncode
            except subprocess.TimeoutExpired:
                out, rc = "", 124
            keys = [l.split(":")[0][len("violation class "):] for l in out.splitlines() if l.startswith("violation class ")]
            res["checks"][pid] = {"rc": rc, "keys": keys[:3]}
            if "VIOLATION property=" in out:
                res["verdict"] = "caught"
                res["caught_by"] = pid
                break
            if rc not in (0, 1):
                res["checks"][pid]["tail"] = out[-400:]
        return res
    finally:
        shutil.rmtree(work, ignore_errors=True)


def cmd_run(argv):
    import argparse
    import concurrent.futures
    ap = argparse.ArgumentParser()
    ap.add_argument("--jobs", type=int, default=4)
    ap.add_argument("--limit", type=int, default=400)
    ap.add_argument("--budget", type=float, default=10)
    ap.add_argument("--only")
    ap.add_argument("--resume", action="store_true")
    a = ap.parse_args(argv)
    ms = json.load(open(os.path.join(OUT, "mutants.json")))
    if a.only:
        ms = [m for m in ms if m["file"] == a.only]
    ms = ms[:a.limit]
    resf = os.path.join(OUT, "results.jsonl")
    done = set()
    if a.resume and os.path.exists(resf):
        for l in open(resf):
            done.add(json.loads(l)["id"])
    ms = [m for m in ms if m["id"] not in done]
    workers = max(1, 16 // a.jobs)
    with concurrent.futures.ThreadPoolExecutor(a.jobs) as ex, open(resf, "a") as f:
        futs = {ex.submit(run_one, m, a.budget, workers): m for m in ms}
        for fu in concurrent.futures.as_completed(futs):
            r = fu.result()
            f.write(json.dumps(r) + "\n")
            f.flush()
            print("%s %-20s line %4d %-14s %-16s %s  [%s -> %s]" % (r["id"], r["file"], r["line"], r["op"], r["verdict"], r.get("caught_by", ""),
                                                                    r["old"][:40].replace("\n", " "), r["new"][:40]), flush=True)


def cmd_report():
    rs = [json.loads(l) for l in open(os.path.join(OUT, "results.jsonl"))]
    by = {}
    for r in rs:
        d = by.setdefault(r["file"], {"killed-by-tests": 0, "caught": 0, "survived": 0})
        d[r["verdict"]] += 1
    print("%-22s %8s %8s %8s" % ("file", "by tests", "caught", "survived"))
    for f in sorted(by):
        d = by[f]
        print("%-22s %8d %8d %8d" % (f, d["killed-by-tests"], d["caught"], d["survived"]))
    tot = {k: sum(d[k] for d in by.values()) for k in ("killed-by-tests", "caught", "survived")}
    print("%-22s %8d %8d %8d" % ("total", tot["killed-by-tests"], tot["caught"], tot["survived"]))
    print()
    for r in rs:
        if r["verdict"] == "survived":
            print("%s %s:%d %s  [%s -> %s]" % (r["id"], r["file"], r["line"], r["op"], r["old"].replace("\n", " ")[:60], r["new"][:60]))


if __name__ == "__main__":
    cmd = sys.argv[1] if len(sys.argv) > 1 else "report"
    if cmd == "list":
        cmd_list()
    elif cmd == "run":
        cmd_run(sys.argv[2:])
    else:
        cmd_report()
