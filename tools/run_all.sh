#!/bin/bash
# usage: tools/run_all.sh [tier] [seed]   - runs every claimed check once, prints one line each
tier=${1:-quick}; seed=${2:-0}
cd "$(dirname "$(readlink -f "$0")")/.."
for P in C01 C02 C03 C06 C07 C09 C10 C11 C12 C13 C15 C16 C17 C18 C19; do
  out=$(VERIF_SEED=$seed timeout 3600 ./check $P --tier $tier 2>&1); rc=$?
  echo "$P rc=$rc $(echo "$out" | grep -E "$tier:" | cut -c1-200)"
  echo "$out" | grep -E "^VIOLATION|^KNOWN|HARNESS" | head -5
done
