#!/bin/bash
# usage: tools/try_mutant.sh <patch.diff> <budget_s> <PID> [PID...]
# applies the patch to a scratch worktree of /repo (never to /repo itself), runs the
# named checks against it with VERIF_REPO, prints the verdict lines, removes the worktree.
patch=$(realpath "$1"); budget=$2; shift 2
V="$(dirname "$(readlink -f "$0")")/.."
wt=$(mktemp -d /tmp/mut-XXXXXX); rmdir $wt
git -C /repo worktree add -q --detach $wt HEAD || exit 3
trap 'git -C /repo worktree remove --force $wt 2>/dev/null' EXIT PIPE TERM INT
if ! git -C $wt apply "$patch"; then echo "PATCH-DOES-NOT-APPLY"; git -C /repo worktree remove --force $wt; exit 3; fi
for P in "$@"; do
  out=$(cd "$V" && VERIF_REPO=$wt VERIF_EVIDENCE_DIR=$wt/.evidence VERIF_REPLAY_DIR=$wt/.replays timeout 900 ./check $P --budget $budget 2>&1)
  rc=$?
  echo "== $P rc=$rc"
  echo "$out" | grep -E "^violation class|^VIOLATION|^KNOWN|quick:" | cut -c1-300 | head -8
  echo "$out" | grep -E "HARNESS" | cut -c1-300 | head -3
  # every replay file must reproduce its violation exactly, in a fresh process
  for r in $(echo "$out" | sed -n 's/^VIOLATION property=[A-Z0-9]* replay=//p' | head -3); do
    rout=$(cd "$V" && VERIF_REPO=$wt timeout 300 ./check $P --replay "$r" 2>&1)
    if echo "$rout" | grep -q "(identical to recorded run)"; then echo "REPLAY-OK $(basename $r)"; else echo "REPLAY-DIFFERS $(basename $r)"; echo "$rout" | head -3; fi
  done
done
git -C /repo worktree remove --force $wt
