"""Helpers to assemble the system under simulation (real canopen objects on
simulated buses) and to build object dictionaries in code."""
import canopen
from canopen import objectdictionary as od_mod
from canopen.objectdictionary import ODVariable, ODRecord, ODArray, ObjectDictionary

from simcan.bus import SimChannel, SimBus, PeerEndpoint, Transport
from simcan.core import US, MS, SEC

BITRATES = (1_000_000, 500_000, 250_000, 125_000)


def make_channel(ctx, swarm=True):
    """A CAN segment with per-run bit rate, latency range and delivery mode."""
    if swarm:
        bitrate = BITRATES[ctx.choice(len(BITRATES), "bitrate")]
        lat_lo = (10 * US, 100 * US, 1 * MS)[ctx.choice(3, "lat_lo")]
        spread = (0, 200 * US, 5 * MS, 40 * MS)[ctx.choice(4, "lat_spread")]
    else:
        bitrate, lat_lo, spread = 1_000_000, 50 * US, 0
    ch = SimChannel(ctx, bitrate, None)
    ch.transport = Transport(ctx, lat_lo, lat_lo + spread)
    return ch


def make_network(ctx, channel, name, via_notify=False, modifiable_tasks=True,
                 cancel_on_shutdown=True):
    bus = SimBus(channel, name, modifiable_tasks, cancel_on_shutdown)
    net = canopen.Network(bus=bus)
    bus.attach(net, via_notify)
    ctx.cleanup.append(bus.shutdown)
    if ctx.threaded:
        bus.start_rx_task()
    return net, bus


def var(name, index, sub=0, dtype=od_mod.UNSIGNED32, access="rw", default=None, value=None):
    v = ODVariable(name, index, sub)
    v.data_type = dtype
    v.access_type = access
    v.default = default
    v.value = value
    return v


def record(name, index, members):
    r = ODRecord(name, index)
    for m in members:
        r.add_member(m)
    return r


def array(name, index, members):
    a = ODArray(name, index)
    for m in members:
        a.add_member(m)
    return a


def pattern(length, salt, text=False):
    """Position-dependent payload; `salt` makes every transfer's bytes unique."""
    if text:
        return bytes(0x20 + ((i * 7 + salt * 13 + (i >> 4)) % 95) for i in range(length))
    return bytes(((i * 31 + salt * 17 + (i >> 8) * 5) ^ (i >> 3)) & 0xFF for i in range(length))


class ClientWorld:
    """Real master Network + RemoteNode/SdoClient against a RefSdoServer peer."""

    def __init__(self, ctx, swarm=True, node_id=None, od=None, node_cls=None):
        from simcan.models.sdo_server import RefSdoServer
        self.ctx = ctx
        self.ch = make_channel(ctx, swarm)
        self.net, self.bus = make_network(ctx, self.ch, "master")
        if node_id is None:
            node_id = 1 + ctx.choice(127, "node")
        self.node_id = node_id
        cls = node_cls or canopen.RemoteNode
        self.node = cls(node_id, od if od is not None else canopen.ObjectDictionary())
        self.net.add_node(self.node)
        self.ep = PeerEndpoint(self.ch, "server")
        self.srv = RefSdoServer(ctx, self.ep, 0x600 + node_id, 0x580 + node_id)
        self.ep.handler = self.srv.handler
        self.srv.resp_delay = (0, 20 * US, 2 * MS)[ctx.choice(3, "respdelay")] if swarm else 0
        to = (0.3, 0.12, 1.0)[ctx.choice(3, "timeout")] if swarm else 0.3
        worst = 2 * (self.ch.transport.lat_hi + self.ch.frame_time(8)) + self.srv.resp_delay
        if to * SEC < 4 * worst:
            to = 0.3
        self.node.sdo.RESPONSE_TIMEOUT = to
        self.timeout = to
        self.worst_rtt = worst
