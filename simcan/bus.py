"""Simulated CAN segment.

`SimChannel` is one CAN segment; every canopen `Network` gets its own `SimBus`
(a real `can.BusABC` subclass) endpoint on it; reference peers are `PeerEndpoint`s.
A `transport` object decides for every (frame, receiver) copy what happens to it.
"""
import can

from simcan.core import SEC, US, MS, HarnessError


class Frame:
    """What the bus log records for every frame put on the wire."""
    __slots__ = ("t", "src", "can_id", "data", "rtr", "ext", "n", "origin")

    def __init__(self, t, src, can_id, data, rtr, ext, n, origin):
        self.t = t
        self.src = src
        self.can_id = can_id
        self.data = data
        self.rtr = rtr
        self.ext = ext
        self.n = n
        self.origin = origin    # "send" | "periodic" | "peer" | "inject"

    def __repr__(self):
        return "<%s %03X %s%s>" % (self.src, self.can_id, self.data.hex(), " RTR" if self.rtr else "")


class Transport:
    """Default transport: every copy is delivered once after a latency drawn
    from the run's range."""

    def __init__(self, ctx, lat_lo=50 * US, lat_hi=50 * US):
        self.ctx = ctx
        self.lat_lo = lat_lo
        self.lat_hi = lat_hi

    def latency(self):
        if self.lat_hi <= self.lat_lo:
            return self.lat_lo
        # quantised to 16 steps to keep the tape small
        step = (self.lat_hi - self.lat_lo) // 15 or 1
        return self.lat_lo + step * self.ctx.choice(16, "lat")

    def route(self, frame, dst):
        """Return a list of (extra_delay_ns, data, flags) copies to deliver to
        `dst`; [] drops the frame for that receiver."""
        return [(self.latency(), None)]


class SimChannel:
    def __init__(self, ctx, bitrate=1_000_000, transport=None):
        self.ctx = ctx
        self.bitrate = bitrate
        self.endpoints = []
        self.transport = transport or Transport(ctx)
        self.busy_until = 0
        self.log = []               # every Frame put on the wire
        self.n = 0
        self.live_tasks = []        # SimCyclicTask registry (C17)
        self.thread_tasks = []      # ThreadTaskView of real python-can thread tasks (C17, Mode T flavour)
        self.all_tasks = []
        self.inline_mode = False    # deliver inside send() to other networks
        self.monitors = []          # callables(frame) run when a frame hits the wire
        self.unsafe_driver = False  # Mode T: non-thread-safe TX path model
        self.TXQ = 8                # depth of the senders' TX queue, in frames
        self._tx_slot = None

    ts_quantum = 0      # receive timestamps: 0 exact, q > 0 rounded down to q ns (coarse driver clock), -1 always 0.0 (driver without timestamps)

    def stamp(self, t):
        q = self.ts_quantum
        if q > 0:
            t = t // q * q
        elif q < 0:
            return 0.0
        return t / SEC

    def frame_time(self, dlc):
        return (47 + 8 * dlc) * SEC // self.bitrate

    def transmit(self, src, can_id, data, rtr=False, ext=False, origin="send"):
        """Put a frame on the wire on behalf of endpoint `src`."""
        ctx = self.ctx
        data = bytes(data)
        self.n += 1
        fr = Frame(ctx.now, src.name, can_id, data, rtr, ext, self.n, origin)
        self.log.append(fr)
        ctx.log("tx", src.name, can_id, data, rtr, ext)
        for m in self.monitors:
            m(fr)
        inline = self.inline_mode and origin in ("send", "peer-inline")
        start = ctx.now if ctx.now > self.busy_until else self.busy_until
        end = start + self.frame_time(len(data))
        self.busy_until = end
        for ep in self.endpoints:
            if ep is src or ep.deaf:
                continue
            if inline and ep.accept_inline:
                ep.dispatch(can_id, data, rtr, ext, self.stamp(ctx.now))
                continue
            for delay, repl in self.transport.route(fr, ep):
                t = end + delay
                if t < ep.last_rx:
                    t = ep.last_rx
                ep.last_rx = t
                d = data if repl is None else repl
                ctx.at(t, _Delivery(ep, can_id, d, rtr, ext, t))
        return fr

    def inject(self, dst, can_id, data, rtr=False, ext=False, delay=0, error=False):
        """Deliver a frame to one endpoint only (stale / duplicated copies)."""
        t = self.ctx.now + delay
        if t < dst.last_rx:
            t = dst.last_rx
        dst.last_rx = t
        self.ctx.at(t, _Delivery(dst, can_id, bytes(data), rtr, ext, t, error))
        return t

    def frames(self, can_id=None, src=None, since=0):
        out = []
        for f in self.log:
            if f.n <= since:
                continue
            if can_id is not None and f.can_id != can_id:
                continue
            if src is not None and f.src != src:
                continue
            out.append(f)
        return out


class _Delivery:
    __slots__ = ("ep", "can_id", "data", "rtr", "ext", "t", "error")

    def __init__(self, ep, can_id, data, rtr, ext, t, error=False):
        self.ep = ep
        self.can_id = can_id
        self.data = data
        self.rtr = rtr
        self.ext = ext
        self.t = t
        self.error = error

    def __call__(self):
        self.ep.deliver(self.can_id, self.data, self.rtr, self.ext, self.ep.channel_obj.stamp(self.t), self.error)


class InjectedCanError(can.CanOperationError):
    """A driver error raised by the simulator as an injected fault (util.origin() attributes it to the run, not to the harness)."""
    injected_fault = True


class SimCyclicTask(can.broadcastmanager.CyclicSendTaskABC):
    """Periodic sender on the virtual clock (stands in for python-can's
    ThreadBasedCyclicSendTask).  Without modify_data."""

    by_reference = True     # python-can's thread based task re-reads the Message objects on every cycle

    def _snapshot(self):
        return [(m.arbitration_id, bytes(m.data), bool(m.is_remote_frame), bool(m.is_extended_id)) for m in self.messages]

    def __init__(self, bus, messages, period):
        # do not call the ABC constructor's validation more than needed
        self.bus = bus
        self.by_reference = bus.tasks_by_reference
        self.messages = tuple(messages)
        self.frozen = self._snapshot()
        self.period = period
        self.period_ns = max(int(round(period * SEC)), 1)
        self.stopped = False
        self.fail_next_stop = False     # fault: the driver refuses the next stop() once (e.g. a BCM socket error)
        self.emitted = 0
        ch = bus.channel_obj
        self.channel = ch
        self.created_at = ch.ctx.now
        self.tid = len(ch.all_tasks) + 1
        ch.live_tasks.append(self)
        ch.all_tasks.append(self)
        ch.ctx.log("task-start", bus.name, self.tid, self.messages[0].arbitration_id,
                   bytes(self.messages[0].data), period, self.messages[0].is_remote_frame)
        ch.ctx.at(ch.ctx.now, self._fire)

    def _fire(self):
        if self.stopped:
            return
        ch = self.channel
        for (cid, data, rtr, ext) in (self._snapshot() if self.by_reference else self.frozen):
            fr = ch.transmit(self.bus, cid, data, rtr, ext, origin="periodic")
            fr.origin = ("periodic", self.tid)
        self.emitted += 1
        ch.ctx.at(ch.ctx.now + self.period_ns, self._fire)

    def stop(self):
        if not self.stopped:
            if self.fail_next_stop:
                self.fail_next_stop = False
                self.channel.ctx.log("task-stop-refused", self.bus.name, self.tid)
                raise InjectedCanError("simulated driver error: cyclic task could not be stopped")
            self.stopped = True
            self.channel.ctx.log("task-stop", self.bus.name, self.tid)
            try:
                self.channel.live_tasks.remove(self)
            except ValueError:
                pass

    def describe(self):
        cid, data, rtr, ext = (self._snapshot() if self.by_reference else self.frozen)[0]
        return (cid, data, self.period, rtr)


class ThreadTaskView:
    """Registry view of one real ThreadBasedCyclicSendTask: it counts as live while
    it has not been stopped (its thread sends nothing more once `stopped` is set)."""

    def __init__(self, bus, task, tid):
        self.bus = bus
        self.task = task
        self.tid = tid

    def alive(self):
        return not self.task.stopped

    def describe(self):
        m = self.task.messages[0]
        return (m.arbitration_id, bytes(m.data), self.task.period, bool(m.is_remote_frame))


class SimModifiableCyclicTask(SimCyclicTask):
    def modify_data(self, messages):
        if isinstance(messages, can.Message):
            messages = [messages]
        if len(messages) != len(self.messages):
            raise ValueError("The number of new cyclic messages to be sent must be equal to the number of messages originally specified for this task")
        for old, new in zip(self.messages, messages):
            if old.arbitration_id != new.arbitration_id:
                raise ValueError("The arbitration ID of new cyclic messages cannot be changed from when the task was created")
        self.messages = tuple(messages)
        self.frozen = self._snapshot()
        self.channel.ctx.log("task-modify", self.bus.name, self.tid, bytes(self.messages[0].data))


class Endpoint:
    accept_inline = False

    def __init__(self, channel, name):
        self.channel_obj = channel
        self.name = name
        self.last_rx = 0
        self.deaf = False
        self.rx_count = 0
        channel.endpoints.append(self)


class SimBus(Endpoint, can.BusABC):
    """python-can bus backed by a SimChannel.  One per canopen Network."""

    accept_inline = True

    def __init__(self, channel, name, modifiable_tasks=True, cancel_on_shutdown=True):
        Endpoint.__init__(self, channel, name)
        self.rx_stamp = {}
        can.BusABC.__init__(self, channel=name)
        self.channel_info = "simcan:%s" % name
        self.network = None
        self.via_notify = False
        self.modifiable_tasks = modifiable_tasks
        self.tasks_by_reference = True
        self.cancel_on_shutdown = cancel_on_shutdown
        self.rx_queue = None        # Mode T: frames waiting for the receive task
        self.is_down = False
        self.rx_errors = []         # exceptions that escaped the receive path
        self.sent = []

    # -- wiring --------------------------------------------------------
    def attach(self, network, via_notify=False):
        self.network = network
        self.via_notify = via_notify

    # -- can.BusABC ----------------------------------------------------
    def send(self, msg, timeout=None):
        ch = self.channel_obj
        ctx = ch.ctx
        if self.is_down:
            raise can.CanOperationError("bus is shut down")
        if getattr(self, "fail_next_send", False):
            # fault: the driver refuses one frame (transmit buffer full)
            self.fail_next_send = False
            ctx.log("send-refused", self.name, msg.arbitration_id)
            raise InjectedCanError("simulated driver error: transmit buffer full")
        self.sent.append(msg)
        if ctx.threaded and ch.unsafe_driver:
            # a driver that is not thread-safe: the frame goes through a shared
            # TX slot in two steps with a scheduling point in between
            # (one slot per bus object: different Network objects have their
            # own driver instance and their own send_lock)
            self._tx_slot = (msg.arbitration_id, bytes(msg.data))
            ctx.tick(US)
            can_id, data = self._tx_slot
            ch.transmit(self, can_id, data, msg.is_remote_frame, msg.is_extended_id)
            return
        # a bounded TX queue paces the sender: send() returns only when the
        # frame is at most TXQ frame times away from the wire
        ahead = ch.busy_until - ch.TXQ * ch.frame_time(8)
        if ahead > ctx.now:
            if ctx.threaded:
                ctx.wait_until(lambda: False, ahead, "bus.send")
            else:
                ctx.now = ahead
        fr = ch.transmit(self, msg.arbitration_id, bytes(msg.data), msg.is_remote_frame,
                         msg.is_extended_id)
        if ctx.threaded:
            cur = ctx.current
            if cur is not None and cur.label.startswith("Cyclic send task"):
                fr.origin = ("periodic", cur.name)
            ctx.tick(US)

    def _recv_internal(self, timeout):
        raise HarnessError("SimBus.recv is not used (no can.Notifier in simulation)")

    real_thread_tasks = False       # True: python-can's own ThreadBasedCyclicSendTask (real code, Mode T only)

    def _send_periodic_internal(self, msgs, period, duration=None, autostart=True,
                                modifier_callback=None):
        if self.real_thread_tasks:
            task = can.BusABC._send_periodic_internal(self, msgs, period, duration, autostart, modifier_callback)
            ch = self.channel_obj
            ad = ThreadTaskView(self, task, len(ch.all_tasks) + 1)
            ch.all_tasks.append(ad)
            ch.thread_tasks.append(ad)
            ch.ctx.log("task-start", self.name, ad.tid, task.messages[0].arbitration_id, bytes(task.messages[0].data), period,
                       task.messages[0].is_remote_frame)
            return task
        if isinstance(msgs, can.Message):
            msgs = [msgs]
        cls = SimModifiableCyclicTask if self.modifiable_tasks else SimCyclicTask
        return cls(self, msgs, period)

    def shutdown(self):
        self.is_down = True
        if self.cancel_on_shutdown:
            can.BusABC.shutdown(self)
        else:
            self._is_shutdown = True

    # -- delivery ------------------------------------------------------
    def deliver(self, can_id, data, rtr, ext, ts, error=False):
        ctx = self.channel_obj.ctx
        if ctx.threaded and self.rx_queue is not None:
            # hand over to the receive task of this endpoint
            self.rx_queue.append((can_id, data, rtr, ext, ts, error))
            return
        self.dispatch(can_id, data, rtr, ext, ts, error)

    def start_rx_task(self):
        import collections
        ctx = self.channel_obj.ctx
        self.rx_queue = collections.deque()
        t = ctx.spawn("rx-" + self.name, self.rx_task_body, daemon_task=True)
        return t

    def dispatch(self, can_id, data, rtr, ext, ts, error=False):
        net = self.network
        if net is None:
            return
        self.rx_count += 1
        ctx = self.channel_obj.ctx
        if not error and not rtr:
            self.rx_stamp[can_id] = ts      # the receive timestamp the driver attached to the last data frame with this id
        ctx.log("rx", self.name, can_id, data, rtr)
        if self.via_notify:
            if error or rtr:
                return
            try:
                net.notify(can_id, bytearray(data), ts)
            except Exception as e:      # observed: "raises into the receive path"
                self.rx_errors.append((can_id, data, e))
                ctx.log("rx-raise", self.name, can_id, data, type(e).__name__)
            return
        msg = can.Message(arbitration_id=can_id, data=data, is_remote_frame=rtr,
                          is_extended_id=ext, timestamp=ts, is_error_frame=error,
                          is_rx=True)
        for l in net.listeners:
            l.on_message_received(msg)

    def rx_task_body(self):
        """Body of the Mode-T receive task for this endpoint."""
        ctx = self.channel_obj.ctx
        q = self.rx_queue
        while True:
            ctx.wait_until(lambda: len(q) > 0, None, "rx")
            item = q.popleft()
            self.dispatch(*item)


class PeerEndpoint(Endpoint):
    """A reference peer (model) on the channel.  `handler(can_id, data, rtr, ts)`
    is called for every delivered frame; it answers with `self.send`."""

    def __init__(self, channel, name, handler=None, proc_delay=0):
        Endpoint.__init__(self, channel, name)
        self.handler = handler
        self.proc_delay = proc_delay

    def deliver(self, can_id, data, rtr, ext, ts, error=False):
        self.rx_count += 1
        if self.handler is not None and not error:
            self.handler(can_id, data, rtr, ts)

    def dispatch(self, can_id, data, rtr, ext, ts, error=False):
        # inline delivery (inside the sender's send call) for peers that opted in with accept_inline
        self.deliver(can_id, data, rtr, ext, ts, error)

    def send(self, can_id, data, rtr=False, ext=None, delay=0, inline=False):
        if ext is None:
            ext = can_id > 0x7FF
        ch = self.channel_obj
        if delay:
            ch.ctx.after(delay, lambda: ch.transmit(self, can_id, data, rtr, ext, origin="peer"))
        else:
            ch.transmit(self, can_id, data, rtr, ext, origin="peer-inline" if inline else "peer")
