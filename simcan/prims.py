"""Simulator primitives substituted for `time`, `queue` and `threading` inside
canopen's modules.  Semantics are the stdlib ones, implemented on kernel waits.
All of them resolve the current run through `simcan.prims.CUR` (one run at a
time per process)."""
import collections

from simcan.core import HarnessError, Hang, SEC, US

CUR = None      # the Ctx of the run in progress


def set_current(ctx):
    global CUR
    CUR = ctx


class Empty(Exception):
    pass


class Full(Exception):
    pass


class SimQueue:
    def __init__(self, maxsize=0):
        self.items = collections.deque()

    def put(self, item, block=True, timeout=None):
        self.items.append(item)
        k = CUR
        if k.threaded:
            k.tick(US)

    def put_nowait(self, item):
        self.put(item)

    def get(self, block=True, timeout=None):
        k = CUR
        items = self.items
        if not block:
            k.tick(US)
            if items:
                return items.popleft()
            raise Empty()
        deadline = None if timeout is None else k.now + int(timeout * SEC)
        while k.wait_until(lambda: len(items) > 0, deadline, "Queue.get"):
            if items:
                return items.popleft()
        raise Empty()

    def get_nowait(self):
        return self.get(False)

    def empty(self):
        CUR.tick(US)
        return not self.items

    def qsize(self):
        CUR.tick(US)
        return len(self.items)


class SimQueueModule:
    Queue = SimQueue
    Empty = Empty
    Full = Full


class SimTimeModule:
    """Stands in for the `time` module inside canopen's modules."""

    @staticmethod
    def time():
        k = CUR
        k.tick(US)
        return (k.now + k.wall_offset) / SEC       # wall clock: may be stepped (fault 'wall-clock-step'); monotonic() is not

    @staticmethod
    def monotonic():
        k = CUR
        k.tick(US)
        return (k.now + k.mono_offset) / SEC

    @staticmethod
    def perf_counter():
        return SimTimeModule.monotonic()

    @staticmethod
    def perf_counter_ns():
        k = CUR
        k.tick(US)
        return k.now + k.mono_offset

    @staticmethod
    def monotonic_ns():
        return SimTimeModule.perf_counter_ns()

    @staticmethod
    def sleep(seconds):
        CUR.sleep(seconds)


class SimLock:
    def __init__(self):
        self.owner = None       # Task, or True in Mode I
        self.locked_flag = False

    def acquire(self, blocking=True, timeout=-1):
        k = CUR
        if not k.threaded:
            if self.locked_flag:
                if not blocking:
                    return False
                raise Hang("inline deadlock: lock already held by the only task")
            self.locked_flag = True
            k.held += 1
            return True
        me = k.current
        if not blocking:
            if self.locked_flag:
                return False
        else:
            deadline = None if timeout is None or timeout < 0 else k.now + int(timeout * SEC)
            while True:
                if not k.wait_until(lambda: not self.locked_flag, deadline, "Lock.acquire"):
                    return False
                if not self.locked_flag:    # (a slow-task stall may have let somebody else in)
                    break
        self.locked_flag = True
        self.owner = me
        return True

    def release(self):
        k = CUR
        if not self.locked_flag:
            raise RuntimeError("release unlocked lock")
        self.locked_flag = False
        self.owner = None
        if not k.threaded:
            k.held -= 1
        else:
            k.tick(US)

    def locked(self):
        return self.locked_flag

    def __enter__(self):
        self.acquire()
        return True

    def __exit__(self, *a):
        self.release()
        return False


class SimRLock(SimLock):
    def __init__(self):
        SimLock.__init__(self)
        self.count = 0

    def acquire(self, blocking=True, timeout=-1):
        k = CUR
        me = k.current if k.threaded else True
        if self.locked_flag and self.owner is me:
            self.count += 1
            return True
        if not k.threaded:
            if self.locked_flag:
                raise Hang("inline deadlock on RLock")
            self.locked_flag = True
            self.owner = True
            self.count = 1
            k.held += 1
            return True
        if not SimLock.acquire(self, blocking, timeout):
            return False
        self.count = 1
        return True

    def release(self):
        if not self.locked_flag:
            raise RuntimeError("cannot release un-acquired lock")
        self.count -= 1
        if self.count == 0:
            SimLock.release(self)

    def _is_owned(self):
        k = CUR
        me = k.current if k.threaded else True
        return self.locked_flag and self.owner is me

    def _release_save(self):
        n = self.count
        self.count = 1
        self.release()
        return n

    def _acquire_restore(self, n):
        self.acquire()
        self.count = n


class SimCondition:
    """threading.Condition on an RLock, stdlib semantics."""

    def __init__(self, lock=None):
        self._lock = lock if lock is not None else SimRLock()
        self._waiters = []

    def acquire(self, *a, **kw):
        return self._lock.acquire(*a, **kw)

    def release(self):
        self._lock.release()

    def __enter__(self):
        self._lock.acquire()
        return True

    def __exit__(self, *a):
        self._lock.release()
        return False

    def _is_owned(self):
        lk = self._lock
        if isinstance(lk, SimRLock):
            return lk._is_owned()
        return lk.locked_flag

    def wait(self, timeout=None):
        if not self._is_owned():
            raise RuntimeError("cannot wait on un-acquired lock")
        k = CUR
        cell = [False]
        self._waiters.append(cell)
        lk = self._lock
        saved = lk._release_save() if isinstance(lk, SimRLock) else lk.release()
        deadline = None if timeout is None else k.now + int(max(timeout, 0) * SEC)
        try:
            got = k.wait_until(lambda: cell[0], deadline, "Condition.wait")
        finally:
            if not cell[0]:
                try:
                    self._waiters.remove(cell)
                except ValueError:
                    pass
            if isinstance(lk, SimRLock):
                lk._acquire_restore(saved)
            else:
                lk.acquire()
        if got:
            k.probe("cond_wait_notified")
        else:
            k.probe("cond_wait_timeout")
        return got

    def wait_for(self, predicate, timeout=None):
        k = CUR
        end = None
        result = predicate()
        while not result:
            if timeout is not None:
                if end is None:
                    end = k.now + int(timeout * SEC)
                remaining = (end - k.now) / SEC
                if remaining <= 0:
                    break
                self.wait(remaining)
            else:
                self.wait(None)
            result = predicate()
        return result

    def notify(self, n=1):
        if not self._is_owned():
            raise RuntimeError("cannot notify on un-acquired lock")
        ws = self._waiters
        for _ in range(min(n, len(ws))):
            ws.pop(0)[0] = True

    def notify_all(self):
        self.notify(len(self._waiters))

    notifyAll = notify_all


class SimThread:
    """threading.Thread for code that starts its own threads (python-can's
    Notifier): the thread becomes a task of the seeded scheduler."""

    def __init__(self, group=None, target=None, name=None, args=(), kwargs=None, daemon=None):
        self._target = target
        self._args = tuple(args)
        self._kwargs = dict(kwargs or {})
        self.name = name or "thread"
        self.daemon = bool(daemon)
        self._task = None

    def start(self):
        k = CUR
        if not k.threaded:
            raise HarnessError("threading.Thread.start() in Mode I")
        if self._task is not None:
            raise RuntimeError("threads can only be started once")
        k.thread_seq = getattr(k, "thread_seq", 0) + 1
        self._task = k.spawn("thr%d" % k.thread_seq, lambda: self._target(*self._args, **self._kwargs), daemon_task=self.daemon)
        self._task.label = self.name
        self._task.daemon_task_ok = self.daemon

    def join(self, timeout=None):
        k = CUR
        t = self._task
        if t is None:
            raise RuntimeError("cannot join thread before it is started")
        deadline = None if timeout is None else k.now + int(max(timeout, 0) * SEC)
        k.wait_until(lambda: t.state == "done", deadline, "Thread.join")

    def is_alive(self):
        return self._task is not None and self._task.state != "done"


class SimThreadingModule:
    Lock = SimLock
    RLock = SimRLock
    Condition = SimCondition
    Thread = SimThread

    def __getattr__(self, name):
        raise HarnessError("canopen used threading.%s, which the simulator does not model" % name)
