"""Install the simulator at canopen's seams (module globals).  No edit of /repo
is needed: every seam is looked up through a module-level name."""
import logging
import os
import sys

from simcan import prims

REPO = os.path.realpath(os.environ.get("VERIF_REPO", "/repo"))
_installed = False


def install():
    """Import canopen from the tree under verification and patch its seams."""
    global _installed
    if _installed:
        return
    sys.dont_write_bytecode = True
    if REPO not in sys.path:
        sys.path.insert(0, REPO)
    import canopen
    here = os.path.realpath(os.path.dirname(canopen.__file__))
    if here != os.path.join(REPO, "canopen"):
        raise RuntimeError("canopen imported from %s, expected %s/canopen" % (here, REPO))
    import canopen.sdo.client
    import canopen.lss
    import canopen.emcy
    import canopen.nmt
    import canopen.network
    import canopen.pdo.base
    import canopen.profiles.p402
    import canopen.timestamp

    tm = prims.SimTimeModule()
    qm = prims.SimQueueModule()
    thm = prims.SimThreadingModule()
    seams = [
        (canopen.sdo.client, "time", tm), (canopen.sdo.client, "queue", qm),
        (canopen.lss, "time", tm), (canopen.lss, "queue", qm),
        (canopen.emcy, "time", tm), (canopen.emcy, "threading", thm),
        (canopen.nmt, "time", tm), (canopen.nmt, "threading", thm),
        (canopen.network, "threading", thm),
        (canopen.pdo.base, "threading", thm),
        (canopen.profiles.p402, "time", tm),
        (canopen.timestamp, "time", tm),
    ]
    for mod, name, obj in seams:
        if hasattr(mod, name):
            setattr(mod, name, obj)
    # any other canopen module that grew a `time`/`queue`/`threading` global
    for name, mod in list(sys.modules.items()):
        if not name.startswith("canopen") or mod is None:
            continue
        f = getattr(mod, "__file__", None) or ""
        if not os.path.realpath(f).startswith(REPO):
            continue
        import time as _t, queue as _q, threading as _th
        if getattr(mod, "time", None) is _t:
            mod.time = tm
        if getattr(mod, "queue", None) is _q:
            mod.queue = qm
        if getattr(mod, "threading", None) is _th:
            mod.threading = thm
    # python-can's own virtual bus and Notifier (used by one configuration of C03 only):
    # their queue, clock, lock and thread seams are module globals as well
    import can.bus
    import can.interfaces.virtual
    import can.notifier
    can.interfaces.virtual.queue = qm
    can.interfaces.virtual.time = tm
    can.notifier.threading = thm
    can.notifier.time = tm
    can.bus.time = tm.time
    # python-can's thread based cyclic sender (one task flavour of C17): Thread, Lock, perf_counter_ns and sleep
    import can.broadcastmanager
    can.broadcastmanager.threading = thm
    can.broadcastmanager.time = tm
    can.bus.threading = thm
    logging.disable(logging.CRITICAL)
    _installed = True
