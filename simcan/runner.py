"""Batch runner: seeded search over many simulated runs, shrinking, replay
files, known findings, evidence."""
import concurrent.futures
import faulthandler
import hashlib
import importlib
import json
import multiprocessing
import os
import signal
import sys
import time
import traceback
import zlib

from simcan import prims
from simcan.core import Ctx, Tape, Violation, HarnessError, Hang, StepCap, AllParked

VERIF = os.path.dirname(os.path.dirname(os.path.abspath(__file__)))
EVIDENCE_DIR = os.environ.get("VERIF_EVIDENCE_DIR") or os.path.join(VERIF, "evidence")
REPLAY_DIR = os.environ.get("VERIF_REPLAY_DIR") or os.path.join(VERIF, "replays")
FINDINGS = os.environ.get("VERIF_FINDINGS") or os.path.join(VERIF, "known_findings.json")
NWORKERS = int(os.environ.get("VERIF_WORKERS", "16"))


def load_prop(pid):
    from simcan import patch
    patch.install()
    return importlib.import_module("simcan.props.%s" % pid.lower())


def run_seed_for(base_seed, pid, index):
    return (base_seed * 1_000_003 + index * 7919 + zlib.crc32(pid.encode())) & 0x7FFFFFFFFFFF


class Outcome:
    __slots__ = ("kind", "key", "msg", "tape", "digest", "ctx", "tb")

    def __init__(self, kind, key=None, msg=None, tape=None, digest=None, ctx=None, tb=None):
        self.kind = kind    # ok | violation | harness
        self.key = key
        self.msg = msg
        self.tape = tape
        self.digest = digest
        self.ctx = ctx
        self.tb = tb


PARAMS = {"tier": "quick"}


HANG_S = float(os.environ.get("VERIF_HANG_S", "20"))


class NoProgress(BaseException):
    """The code under test spins without ever reaching a simulator primitive."""


class _Watch:
    """CPU-time watchdog for one run (main thread only): if no simulator step
    happens between two alarms HANG_S of CPU time apart, the run is stuck in a
    loop that never reaches a primitive (the step cap cannot see that)."""

    def __init__(self, ctx):
        self.ctx = ctx
        self.last = -1
        self.armed = False
        import threading
        if threading.current_thread() is threading.main_thread() and hasattr(signal, "setitimer"):
            # CPU time of this process, not wall time: a starved process is not a hung one
            self.old = signal.signal(signal.SIGVTALRM, self._fire)
            signal.setitimer(signal.ITIMER_VIRTUAL, HANG_S, HANG_S)
            self.armed = True

    def _fire(self, signum, frame):
        steps = self.ctx.steps + self.ctx.tape_len()
        if steps == self.last:
            raise NoProgress()
        self.last = steps

    def stop(self):
        if self.armed:
            signal.setitimer(signal.ITIMER_VIRTUAL, 0)
            signal.signal(signal.SIGVTALRM, self.old)


def run_one(prop, prefix=(), seed=0, replay=None, trace=False, params=None):
    """Execute one simulated run.  Pure function of (code, prefix, seed) or of
    (code, replay tape)."""
    tape = Tape(prefix=prefix, seed=seed, replay=replay, keep_labels=trace)
    ctx = Ctx(tape, threaded=getattr(prop, "THREADED", False), trace=trace)
    ctx.params = params or PARAMS
    ctx.tape_len = lambda: len(tape.values)
    prims.set_current(ctx)
    watch = _Watch(ctx)
    try:
        try:
            prop.scenario(ctx)
        except StepCap:
            watch.stop()
            key = "%s/livelock/step-cap-exceeded" % prop.ID
            ctx.log("VIOLATION", key)
            return Outcome("violation", key, "the run exceeded %d simulator steps (ordinary runs need a few thousand): the code under test keeps polling / "
                           "retrying without end. Last events: %s" % (ctx.max_steps, (ctx.trace or [])[-6:]), tape.values, ctx.digest(), ctx)
        except AllParked:
            watch.stop()
            key = "%s/hang/all-threads-parked" % prop.ID
            ctx.log("VIOLATION", key)
            return Outcome("violation", key, "every task thread and the scheduler were parked without a single step for 20 s of wall time: the baton "
                           "of the cooperative scheduler is lost. On an unchanged tree this has never been seen; it happens when the code under "
                           "test blocks on a lock or condition object that the simulator does not own - one created when the module was imported "
                           "(class attribute, module global), before the seams were in place (VERIF_DEBUG_PARK=1 dumps all thread stacks). Last events: %s"
                           % ((ctx.trace or [])[-5:],), tape.values, ctx.digest(), ctx)
        except NoProgress:
            watch.stop()
            key = "%s/hang/no-simulator-primitive-reached-for-%ds" % (prop.ID, int(HANG_S))
            ctx.log("VIOLATION", key)
            return Outcome("violation", key, "the call under test did not return and reached no simulator primitive (clock, queue, lock, bus) "
                           "for %d s of CPU time: an endless loop in the code under test. Last events: %s" % (int(HANG_S), (ctx.trace or [])[-5:]),
                           tape.values, ctx.digest(), ctx)
        finally:
            watch.stop()
            for fn in ctx.cleanup:
                try:
                    fn()
                except Exception:
                    pass
        return Outcome("ok", tape=tape.values, digest=ctx.digest(), ctx=ctx)
    except Violation as v:
        return Outcome("violation", v.key, v.msg, tape.values, ctx.digest(), ctx)
    except (HarnessError, Hang) as e:
        return Outcome("harness", type(e).__name__, str(e), tape.values, ctx.digest(), ctx,
                       traceback.format_exc())
    except Exception as e:      # noqa
        from simcan import util
        if util.origin(e) == "sut" and util.site(e) != "-":
            # an exception raised by canopen itself escaped an API call the
            # scenario expected to succeed
            key = "%s/unexpected-exception/%s@%s" % (prop.ID, type(e).__name__, util.site(e))
            ctx.log("VIOLATION", key, repr(e))
            return Outcome("violation", key, "canopen raised %r\n%s" % (e, traceback.format_exc()[-1200:]),
                           tape.values, ctx.digest(), ctx)
        # bug in a model or scenario
        return Outcome("harness", type(e).__name__, str(e), tape.values, ctx.digest(), ctx,
                       traceback.format_exc())
    finally:
        prims.set_current(None)


def plan(prop, pid, tier, seed):
    """Static job plan: enumerated prefixes first (must run), then seeded runs
    with an empty prefix.  Job i is a pure function of (pid, tier, seed, i)."""
    enum, n_seeded = prop.jobs(tier, seed)
    # the first MIN_SEEDED seeded jobs are run whatever the wall-clock budget says (like the
    # enumerated core): on a loaded machine the enumerated core alone can use up the budget,
    # and a batch without seeded histories would be a much weaker check than the one described
    MIN_SEEDED[pid] = min(n_seeded, getattr(prop, "MIN_SEEDED", 2000))
    return enum, n_seeded


MIN_SEEDED = {}


def job_at(pid, seed, enum, i):
    if i < len(enum):
        return (i, tuple(enum[i]), run_seed_for(seed, pid, i), True)
    return (i, (), run_seed_for(seed, pid, i), i < len(enum) + MIN_SEEDED.get(pid, 0))


def _worker(args):
    pid, tier, seed, wid, nw, deadline, hard_deadline = args
    PARAMS["tier"] = tier
    faulthandler.enable()
    faulthandler.dump_traceback_later(max(hard_deadline - time.time(), 1) + 30, exit=True)
    prop = load_prop(pid)
    enum, n_seeded = plan(prop, pid, tier, seed)
    jobs = (job_at(pid, seed, enum, i) for i in range(wid, len(enum) + n_seeded, nw))
    fault_probes = getattr(prop, "FAULT_PROBES", {})
    res = {
        "runs": 0, "cases": 0, "must_runs": 0, "skipped": 0, "cover": set(), "faults": {}, "probes": {},
        "obs": {}, "violations": [], "harness": [], "sim_s": 0.0, "digest": hashlib.blake2b(digest_size=16),
        "samples": [], "first_digests": {}, "steps": 0, "sched": set(), "contested": 0,
        "must_skipped": 0,
    }
    for (index, prefix, rseed, must) in jobs:
        now = time.time()
        if now > hard_deadline or (not must and now > deadline):
            res["skipped"] += 1
            if must:
                res["must_skipped"] += 1
            continue
        out = run_one(prop, prefix, rseed)
        ctx = out.ctx
        res["runs"] += 1
        if index < len(enum):
            res["must_runs"] += 1       # (enumerated cases only; the guaranteed seeded jobs count as seeded)
        res["cover"] |= ctx.cover_keys
        res["cases"] += max(ctx.cover_calls, 1)
        for k, v in ctx.faults.items():
            res["faults"][k] = res["faults"].get(k, 0) + v
        for k, v in ctx.probes.items():
            res["probes"][k] = res["probes"].get(k, 0) + v
            fk = fault_probes.get(k)
            if fk is not None:      # a probe that marks an injected disturbance also counts as a fired fault
                res["faults"][fk] = res["faults"].get(fk, 0) + v
        for k, v in ctx.obs.items():
            res["obs"][k] = res["obs"].get(k, 0) + v
        res["sim_s"] += ctx.sim_elapsed_s()
        res["steps"] += ctx.steps
        if ctx.sched_hash is not None:
            res["sched"].add(ctx.sched_hash.hexdigest())
            res["contested"] += ctx.contested
        res["digest"].update(("%d:%s;" % (index, out.digest)).encode())
        if index < 64:
            res["first_digests"][index] = out.digest
        if out.kind == "violation":
            if len(res["violations"]) < 200:
                res["violations"].append((index, list(prefix), rseed, out.key, out.msg, out.tape))
            if "/hang/" in out.key:
                # every further hang costs 2 x HANG_S of wall time: one is enough
                hard_deadline = 0
        elif out.kind == "harness":
            if len(res["harness"]) < 20:
                res["harness"].append((index, list(prefix), rseed, out.key, out.msg, out.tb))
    res["digest"] = res["digest"].hexdigest()
    faulthandler.cancel_dump_traceback_later()
    return res


def _worker_proc(conn, args):
    try:
        res = _worker(args)
        conn.send(res)
    finally:
        conn.close()
        # do not wait for stray (possibly spinning) threads of aborted Mode T runs
        os._exit(0)


def load_findings():
    try:
        with open(FINDINGS) as f:
            return json.load(f).get("findings", [])
    except FileNotFoundError:
        return []


def match_finding(findings, pid, key):
    for f in findings:
        if f.get("property") == pid and f.get("status") == "open" and f.get("key") == key:
            return f
    return None


# ---------------------------------------------------------------------------
# shrinking

def shrink(prop, tape_values, spans, key, budget_s=45.0, max_exec=1500):
    """Minimise a failing tape while the same violation class persists:
    (1) delta-debugging over the generator's spans (operations, transfers, steps),
    (2) truncation of the tail, (3) zeroing / halving of single choices."""
    t0 = time.time()
    execs = [0]

    def strip(v):
        v = list(v)
        while v and v[-1] == 0:
            v.pop()
        return v

    def run(cand):
        if execs[0] >= max_exec or time.time() - t0 > budget_s:
            return None
        execs[0] += 1
        out = run_one(prop, replay=cand)
        if out.kind == "violation" and out.key == key:
            return out
        return None

    best = strip(tape_values)
    first = run(best)
    if first is None:
        return best, execs[0]
    cur_spans = first.ctx.tape.spans

    def top_level(spans, n):
        # maximal spans, in tape order, inside the current tape
        sp = sorted(set((a, b) for a, b, _ in spans if b > a and a < n), key=lambda x: (x[0], -x[1]))
        out = []
        end = -1
        for a, b in sp:
            if a >= end:
                out.append((a, b))
                end = b
        return out

    for _round in range(4):
        improved = False
        # 1. ddmin over top-level spans, then over all spans one by one
        sp = top_level(cur_spans, len(best))
        n = 2
        while sp and execs[0] < max_exec and time.time() - t0 < budget_s:
            chunk = max(1, (len(sp) + n - 1) // n)
            hit = False
            for i in range(0, len(sp), chunk):
                part = sp[i:i + chunk]
                cand = list(best)
                for a, b in reversed(part):
                    del cand[a:b]
                cand = strip(cand)
                r = run(cand)
                if r is not None:
                    best = cand
                    cur_spans = r.ctx.tape.spans
                    sp = top_level(cur_spans, len(best))
                    n = max(n - 1, 2)
                    hit = True
                    improved = True
                    break
            if not hit:
                if chunk == 1:
                    break
                n = min(n * 2, len(sp))
        inner = sorted(set((a, b) for a, b, _ in cur_spans if b > a and a < len(best)), key=lambda x: (x[0] - x[1]))
        for a, b in inner[:60]:
            if b > len(best):
                continue
            cand = strip(best[:a] + best[b:])
            r = run(cand)
            if r is not None:
                best = cand
                cur_spans = r.ctx.tape.spans
                improved = True
                break
        # 2. truncate the tail
        cut = len(best) // 2
        while cut >= 1 and execs[0] < max_exec:
            cand = strip(best[:len(best) - cut])
            if len(cand) < len(best):
                r = run(cand)
                if r is not None:
                    best = cand
                    cur_spans = r.ctx.tape.spans
                    improved = True
                    continue
            cut //= 2
        # 3. zero, then halve individual choices
        i = 0
        while i < len(best) and execs[0] < max_exec and time.time() - t0 < budget_s:
            if best[i] != 0:
                for nv in (0, best[i] // 2, best[i] - 1):
                    if nv >= best[i] or nv < 0:
                        continue
                    cand = list(best)
                    cand[i] = nv
                    cand = strip(cand)
                    r = run(cand)
                    if r is not None:
                        best = cand
                        cur_spans = r.ctx.tape.spans
                        improved = True
                        break
            i += 1
        if not improved:
            break
    return best, execs[0]


def _run_history(prop, history):
    """Execute the runs that preceded the recorded one in its process (outcomes
    ignored): only needed when the code under test carries state from one run
    to the next (class attributes, module globals, mutable defaults)."""
    for h in history or []:
        if "tape" in h:
            run_one(prop, replay=h["tape"])
        else:
            run_one(prop, tuple(h["prefix"]), h["seed"])


def exec_doc(pid, path):
    """Child side of fresh_exec: run history + tape in this (fresh) process and
    print the outcome as one JSON line."""
    prop = load_prop(pid)
    with open(path) as f:
        doc = json.load(f)
    PARAMS["tier"] = doc.get("tier", "quick")
    _run_history(prop, doc.get("process_history"))
    out = run_one(prop, replay=doc["tape"], trace=True)
    print("EXEC-RESULT " + json.dumps({
        "kind": out.kind, "key": out.key, "msg": out.msg, "digest": out.digest,
        "labels": [[l, m] for (l, m) in (out.ctx.tape.labels or [])][:2000],
        "trace": (out.ctx.trace or [])[-400:]}, default=repr))
    return 0


def fresh_exec(pid, tier, tape, history=None, timeout=600):
    """Execute (history +) tape in a fresh interpreter; returns the outcome dict
    or None when the child failed."""
    import subprocess
    import tempfile
    os.makedirs(REPLAY_DIR, exist_ok=True)
    fd, tmp = tempfile.mkstemp(prefix=".exec-", suffix=".json", dir=REPLAY_DIR)
    try:
        with os.fdopen(fd, "w") as f:
            json.dump({"tier": tier, "tape": list(tape), "process_history": history or []}, f)
        check = os.path.join(os.path.dirname(os.path.dirname(os.path.abspath(__file__))), "check")
        try:
            cp = subprocess.run([sys.executable, check, pid, "--exec-doc", tmp], capture_output=True, text=True, timeout=timeout)
        except subprocess.TimeoutExpired:
            return None
        for line in cp.stdout.splitlines():
            if line.startswith("EXEC-RESULT "):
                return json.loads(line[len("EXEC-RESULT "):])
        return None
    finally:
        try:
            os.unlink(tmp)
        except OSError:
            pass


def write_replay(pid, seed, n, tier, tape, key, msg, prop, history=None, fresh=None):
    os.makedirs(REPLAY_DIR, exist_ok=True)
    path = os.path.join(REPLAY_DIR, "%s-%d-%d.json" % (pid, seed, n))
    if fresh is None:
        fresh = fresh_exec(pid, tier, tape, history)
    if fresh is None:       # no child result: fall back to this process
        out = run_one(prop, replay=tape, trace=True)
        fresh = {"kind": out.kind, "key": out.key, "msg": out.msg, "digest": out.digest,
                 "labels": [[l, m] for (l, m) in (out.ctx.tape.labels or [])][:2000], "trace": (out.ctx.trace or [])[-400:]}
    doc = {
        "property": pid, "seed": seed, "tier": tier, "tape": list(tape),
        "process_history": history or [],
        "class_key": key, "message": fresh["msg"] if fresh["kind"] == "violation" else msg,
        "reproduced": fresh["kind"] == "violation" and fresh["key"] == key,
        "digest": fresh["digest"],
        "labels": fresh["labels"],
        "trace": fresh["trace"],
    }
    with open(path, "w") as f:
        json.dump(doc, f, indent=1, default=repr)
    return path, doc["reproduced"]


def replay_file(pid, path):
    prop = load_prop(pid)
    with open(path) as f:
        doc = json.load(f)
    PARAMS["tier"] = doc.get("tier", "quick")
    if doc.get("process_history"):
        print("re-executing the %d run(s) that preceded the recorded one in its process" % len(doc["process_history"]))
        _run_history(prop, doc["process_history"])
    out = run_one(prop, replay=doc["tape"], trace=True)
    if out.kind == "violation":
        same = out.key == doc.get("class_key") and out.digest == doc.get("digest")
        print("replayed: key=%s digest=%s %s" % (out.key, out.digest,
                                                   "(identical to recorded run)" if same else "(DIFFERS from recorded run: key=%s digest=%s)" % (doc.get("class_key"), doc.get("digest"))))
        print(out.msg)
        for line in (out.ctx.trace or [])[-60:]:
            print("   ", line)
        f = match_finding(load_findings(), pid, out.key)
        if f is not None:
            print("KNOWN-FINDING: property=%s %s" % (pid, f["what"]))
            return 0
        print("VIOLATION property=%s replay=%s" % (pid, path))
        return 1
    if out.kind == "harness":
        print("HARNESS-ERROR during replay: %s %s" % (out.key, out.msg))
        print(out.tb)
        return 2
    print("replay did not reproduce a violation (digest=%s, recorded %s)" % (out.digest, doc.get("digest")))
    return 0


def find_history(pid, tier, seed, nw, index, tape, key, enum, budget_s=120.0):
    """The violation of job `index` does not reproduce in a fresh process: the
    code under test carried state over from earlier runs of the same worker.
    Look for a short process history after which it does: the run itself
    repeated, then the last 1, 2, 4, ... jobs of that worker."""
    t0 = time.time()
    cands = [[{"tape": list(tape)}]]
    wid = index % nw
    before = list(range(wid, index, nw))
    k = 1
    while before:
        part = before[-k:]
        cands.append([{"prefix": list(job_at(pid, seed, enum, j)[1]), "seed": job_at(pid, seed, enum, j)[2]} for j in part])
        if k >= len(before):
            break
        k *= 4
    for hist in cands:
        if time.time() - t0 > budget_s:
            break
        r = fresh_exec(pid, tier, tape, hist, timeout=max(30, budget_s))
        if r is not None and r["kind"] == "violation" and r["key"] == key:
            return hist, r
    return None, None


# ---------------------------------------------------------------------------

def main_check(pid, tier, seed, budget_s=None):
    t0 = time.time()
    PARAMS["tier"] = tier
    prop = load_prop(pid)
    if budget_s is None:
        budget_s = float(os.environ.get("VERIF_BUDGET_S", prop.BUDGET[tier]))
    enum, n_seeded = plan(prop, pid, tier, seed)
    total_jobs = len(enum) + n_seeded
    nw = max(1, min(NWORKERS, total_jobs))
    deadline = t0 + budget_s
    hard = t0 + max(budget_s * 4, budget_s + 120)
    full = [job_at(pid, seed, enum, i) for i in range(min(total_jobs, 64))]
    last_job = job_at(pid, seed, enum, total_jobs - 1)
    mpctx = multiprocessing.get_context("fork")
    results = []
    dead = 0
    # one process per worker and one pipe each (not a pool: when a worker dies -
    # e.g. killed by its watchdog because the code under test hangs inside a
    # thread - the results of the others must survive)
    procs = []
    for w in range(nw):
        parent_conn, child_conn = mpctx.Pipe(duplex=False)
        p = mpctx.Process(target=_worker_proc, args=(child_conn, (pid, tier, seed, w, nw, deadline, hard)), daemon=True)
        p.start()
        child_conn.close()
        procs.append((p, parent_conn))
    for p, conn in procs:
        try:
            limit = max(hard - time.time(), 1) + 90
            if conn.poll(limit):
                results.append(conn.recv())
            else:
                raise TimeoutError("no result within the hard wall cap")
        except (EOFError, OSError, TimeoutError) as e:
            dead += 1
            print("HARNESS-ERROR: worker died: %r (exit code %r)" % (e, p.exitcode))
            if p.is_alive():
                p.kill()
        finally:
            conn.close()
    for p, conn in procs:
        p.join(5)
        if p.is_alive():
            p.kill()
    if not results:
        return 2
    # merge
    runs = sum(r["runs"] for r in results)
    cases = sum(r["cases"] for r in results)    # judged cases (cover calls): a run of a history-type scenario judges several
    cover = set()
    faults, probes, obs = {}, {}, {}
    viol, harness = [], []
    sim_s = 0.0
    sched = set()
    contested = 0
    first_digests = {}
    for r in results:
        cover |= r["cover"]
        for src, dst in ((r["faults"], faults), (r["probes"], probes), (r["obs"], obs)):
            for k, v in src.items():
                dst[k] = dst.get(k, 0) + v
        viol += r["violations"]
        harness += r["harness"]
        sim_s += r["sim_s"]
        sched |= r["sched"]
        contested += r["contested"]
        first_digests.update(r["first_digests"])
    must_total = len(enum)
    must_runs = sum(r["must_runs"] for r in results)
    must_skipped = sum(r["must_skipped"] for r in results)
    batch_digest = hashlib.blake2b(("".join(sorted(r["digest"] for r in results))).encode(),
                                   digest_size=16).hexdigest()

    # in-process determinism spot check: re-run the first jobs and compare digests
    det_checked = 0
    det_bad = []
    for (i, prefix, s, must) in full[:24]:
        if i in first_digests:
            o = run_one(prop, prefix, s)
            det_checked += 1
            if o.digest != first_digests[i]:
                det_bad.append(i)

    rc = 0
    findings = load_findings()
    known_hit = []
    reported = []
    if harness:
        rc = 2
        for h in harness[:3]:
            print("HARNESS-ERROR property=%s job=%d seed=%d %s: %s" % (pid, h[0], h[2], h[3], h[4]))
            print(h[5])
    if dead:
        rc = 2
    if det_bad:
        rc = 2
        print("HARNESS-ERROR property=%s nondeterministic runs (jobs %s): re-running them in the parent process gave other digests - either the "
              "harness draws on something outside the tape, or the code under test keeps state from one run to the next" % (pid, det_bad))
    if must_skipped:
        rc = 2
        print("HARNESS-ERROR property=%s %d must-run cases (enumerated core and guaranteed seeded jobs) not run within the hard wall cap" % (pid, must_skipped))
    # distinct violation classes, deterministic order
    by_key = {}
    for v in sorted(viol, key=lambda v: (v[3], v[0])):
        by_key.setdefault(v[3], v)
    n_rep = 0
    for key in sorted(by_key):
        index, prefix, s, key, msg, tape = by_key[key]
        f = match_finding(findings, pid, key)
        if f is not None:
            print("KNOWN-FINDING: property=%s %s [key=%s, e.g. job %d seed %d]" % (pid, f["what"], key, index, s))
            known_hit.append(key)
            continue
        n_rep += 1
        if n_rep > 5:
            print("VIOLATION property=%s (further class %s not minimised)" % (pid, key))
            continue
        history = None
        if "/hang/" in key or "/livelock/" in key:
            small, execs = list(tape), 0          # every re-execution costs 2 x HANG_S
            path, ok = write_replay(pid, s, index, tier, small, key, msg, prop)
        else:
            out = run_one(prop, replay=tape)
            spans = out.ctx.tape.spans
            small, execs = shrink(prop, tape, spans, key)
            # the replay file must reproduce in a fresh process
            fresh = fresh_exec(pid, tier, small)
            if fresh is not None and not (fresh["kind"] == "violation" and fresh["key"] == key):
                # not from a clean process: try the unminimised run, then look for the
                # process history (earlier runs of the same worker) the violation needs
                small = list(tape)
                fresh = fresh_exec(pid, tier, small)
                if fresh is not None and not (fresh["kind"] == "violation" and fresh["key"] == key):
                    history, fresh2 = find_history(pid, tier, seed, nw, index, small, key, enum)
                    if history is not None:
                        fresh = fresh2
            path, ok = write_replay(pid, s, index, tier, small, key, msg, prop, history, fresh)
        print("violation class %s: %s" % (key, msg))
        print("  minimised tape %d -> %d entries in %d executions%s" % (len(tape), len(small), execs, "" if not history else
              "; the violation depends on state the code under test carries over from earlier runs in the same process: the replay file "
              "re-executes %d preceding run(s) first" % len(history)))
        if not ok:
            print("  note: the replay file does not reproduce this class from a clean process (state carried over between runs could not be reconstructed)")
        print("VIOLATION property=%s replay=%s" % (pid, path))
        reported.append(key)
        if rc == 0:
            rc = 1
    if reported:
        # a violation was found and has a replay file: that is the verdict, even if
        # (e.g. because of hangs) not every planned case could be run
        rc = 1

    wall = time.time() - t0
    samples = []
    for (i, prefix, s, must) in full[:3]:
        o = run_one(prop, prefix, s, trace=True)
        samples.append({"job": i, "prefix": list(prefix), "run_seed": s,
                        "trace": (o.ctx.trace or [])[:40],
                        "choices": len(o.tape)})
    # a later, seeded sample as well
    if total_jobs > 3:
        i, prefix, s, must = last_job
        o = run_one(prop, prefix, s, trace=True)
        samples.append({"job": i, "prefix": list(prefix), "run_seed": s,
                        "trace": (o.ctx.trace or [])[:40], "choices": len(o.tape)})
    nontrivial = prop.nontrivial(cover) if hasattr(prop, "nontrivial") else len(cover)
    zero_probes = [p for p in getattr(prop, "PROBES", []) if not probes.get(p)]
    ev = {
        "property_id": pid,
        "tier": tier,
        "seed": seed,
        "level": prop.LEVEL,
        "coverage": {
            "evaluations": cases,
            "runs": runs,
            "distinct_nontrivial": nontrivial,
            "rule": prop.RULE,
            "samples": samples,
            "exhaustive": bool(must_total and must_runs == must_total and getattr(prop, "EXHAUSTIVE_CORE", None)),
            "exhaustive_core": getattr(prop, "EXHAUSTIVE_CORE", None),
            "enumerated_cases": must_total,
            "enumerated_cases_run": must_runs,
            "seeded_cases_run": runs - must_runs,
            "seeded_cases_guaranteed": MIN_SEEDED.get(pid, 0),
            "jobs_planned": total_jobs,
            "jobs_skipped_by_budget": sum(r["skipped"] for r in results),
            "distinct_coverage_keys": len(cover),
            "runs_per_hour": int(runs / max(wall, 1e-9) * 3600),
            "simulated_seconds": round(sim_s, 3),
            "fault_kinds_fired": faults,
            "reach_probes": probes,
            "reach_probes_at_zero": zero_probes,
            "observations": obs,
            "distinct_interleavings": len(sched) if sched else None,
            "interleaving_measure": "hash of the sequence of (chosen task, #candidates) at contested scheduling points" if sched else "n/a (Mode I: single application task, events run inline in virtual-time order)",
            "contested_scheduling_points": contested,
            "batch_digest": batch_digest,
            "determinism_spot_check": {"jobs_rerun_in_parent": det_checked, "mismatches": len(det_bad)},
            "components": getattr(prop, "COMPONENTS", {}),
            "known_findings_hit": known_hit,
            "violation_classes_reported": reported,
            "workers": nw,
        },
        "assumptions": getattr(prop, "ASSUMPTIONS", []),
        "wall_s": round(wall, 3),
        "violations": len(reported),
    }
    os.makedirs(EVIDENCE_DIR, exist_ok=True)
    with open(os.path.join(EVIDENCE_DIR, "%s.json" % pid), "w") as f:
        json.dump(ev, f, indent=1, default=repr, sort_keys=True)
    print("%s %s: %d runs (%d enumerated), %d coverage keys, %.1f sim-s, %.1fs wall, faults=%s, rc=%d" %
          (pid, tier, runs, must_runs, len(cover), sim_s, wall, faults, rc))
    return rc


def digests(pid, tier, seed, n, workers=1):
    """Digest of the first n jobs (for the determinism self-test)."""
    PARAMS["tier"] = tier
    prop = load_prop(pid)
    enum, n_seeded = plan(prop, pid, tier, seed)
    # half enumerated cases (spread over the list), half seeded ones
    idx = []
    if enum:
        stepe = max(1, len(enum) // max(1, n // 2))
        idx = list(range(0, len(enum), stepe))[: n // 2]
    idx += list(range(len(enum), len(enum) + n - len(idx)))
    full = [job_at(pid, seed, enum, i) for i in idx]
    h = hashlib.blake2b(digest_size=16)
    if workers <= 1:
        for (i, prefix, s, must) in full:
            o = run_one(prop, prefix, s)
            h.update(("%d:%s:%s;" % (i, o.kind, o.digest)).encode())
    else:
        mpctx = multiprocessing.get_context("fork")
        far = time.time() + 3600
        with concurrent.futures.ProcessPoolExecutor(workers, mp_context=mpctx) as ex:
            futs = [ex.submit(_digest_worker, (pid, full[w::workers])) for w in range(workers)]
            allr = {}
            for fu in futs:
                allr.update(fu.result())
        for i in sorted(allr):
            h.update(("%d:%s;" % (i, allr[i])).encode())
    return h.hexdigest()


def _digest_worker(args):
    pid, jobs = args
    prop = load_prop(pid)
    out = {}
    for (i, prefix, s, must) in jobs:
        o = run_one(prop, prefix, s)
        out[i] = "%s:%s" % (o.kind, o.digest)
    return out
