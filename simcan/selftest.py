"""Self-tests of the machinery itself.

determinism: for each property, the digests of N runs (half enumerated, half
seeded) must be identical (a) twice in one process, (b) in a fresh interpreter
under another PYTHONHASHSEED, (c) with another worker count.
"""
import os
import subprocess
import sys

HERE = os.path.dirname(os.path.dirname(os.path.abspath(__file__)))
ALL = ["C01", "C02", "C03", "C06", "C07", "C09", "C10", "C11", "C12", "C13", "C15", "C16", "C17", "C18", "C19"]


def _digest(pid, seed, n, workers, hashseed):
    env = dict(os.environ)
    env["PYTHONHASHSEED"] = str(hashseed)
    out = subprocess.run([sys.executable, os.path.join(HERE, "check"), pid, "--digests", str(n), "--seed", str(seed),
                          "--workers", str(workers)], env=env, capture_output=True, text=True, timeout=1800)
    if out.returncode != 0:
        return "ERROR rc=%d %s" % (out.returncode, (out.stdout + out.stderr)[-400:])
    return out.stdout.strip().splitlines()[-1]


def determinism(ids, seed):
    from simcan import runner
    ids = [i.upper() for i in ids] or ALL
    n = int(os.environ.get("VERIF_SELFTEST_N", "200"))
    bad = 0
    for pid in ids:
        a = runner.digests(pid, "quick", seed, n, 1)
        b = runner.digests(pid, "quick", seed, n, 1)
        c = _digest(pid, seed, n, 1, 12345)
        d = _digest(pid, seed, n, 7, 4242)
        e = _digest(pid, seed, n, 16, 0)
        ok = a == b == c == d == e
        print("%s determinism over %d runs: %s  (in-process x2, fresh interpreter PYTHONHASHSEED=12345, 7 workers PYTHONHASHSEED=4242, 16 workers)%s" % (
            pid, n, "OK " + a if ok else "MISMATCH", "" if ok else "\n   %s\n   %s\n   %s\n   %s\n   %s" % (a, b, c, d, e)))
        if not ok:
            bad += 1
    return 2 if bad else 0


def sensitivity(ids):
    """Run every recorded seeded change against the check(s) that should catch it."""
    import json
    seeds = json.load(open(os.path.join(HERE, "tools", "seeds.json")))
    ids = [i.upper() for i in ids]
    missed = 0
    for sid in sorted(seeds):
        meta = seeds[sid]
        if ids and meta["property"] not in ids:
            continue
        patch = os.path.join(HERE, "seeded", sid, "patch.diff")
        if not os.path.exists(patch):
            continue
        if not meta.get("caught_by", [meta["property"]]):
            print("%s: outside the property's quantifier (kept for the record, not expected to be caught)" % sid)
            continue
        out = subprocess.run([os.path.join(HERE, "tools", "try_mutant.sh"), patch, os.environ.get("VERIF_SENS_BUDGET", "25")] + meta.get("caught_by", [meta["property"]]),
                             capture_output=True, text=True, timeout=3600)
        caught = "VIOLATION property=" in out.stdout
        replay_ok = "REPLAY-OK" in out.stdout and "REPLAY-DIFFERS" not in out.stdout
        print("%s: %s" % (sid, ("caught, replay reproduces exactly" if replay_ok else "caught, REPLAY DIFFERS") if caught else "MISSED"), flush=True)
        if caught and not replay_ok:
            missed += 1
            print(out.stdout[-900:])
        if not caught:
            missed += 1
            print(out.stdout[-600:])
    return 1 if missed else 0
