"""Simulation kernel: choice tape, virtual clock, event heap, tasks.

One run == one `Ctx`.  Every decision of a run comes from `Ctx.choice`, i.e.
from the tape; the tape is either filled from random.Random(seed) (search) or
read back from a list (replay / shrinking).

Two execution modes share all primitives (see DESIGN.md section 2.1):

* Mode I (inline): exactly one application task (the calling thread).  Frame
  deliveries, timers and peer models run as event callbacks inside the blocking
  primitive the application is parked in.
* Mode T (threaded): N application tasks plus receive tasks are real threads
  that pass a baton; the kernel decides from the tape who runs next.
"""
import hashlib
import heapq
import os
import random
import threading

US = 1_000
MS = 1_000_000
SEC = 1_000_000_000


class Violation(Exception):
    """A property violation.  `key` is the class key (oracle clause + cause)."""

    def __init__(self, key, msg):
        Exception.__init__(self, "%s: %s" % (key, msg))
        self.key = key
        self.msg = msg


class HarnessError(Exception):
    """A bug or limit in the simulator / a model.  Never a VIOLATION."""


class AllParked(BaseException):
    """Mode T: every thread (tasks and the main thread) has been parked for PARK_LIMIT_S of wall
    time without a single scheduler step - the baton is lost.  Seen only with code under test that
    keeps simulator primitives (a class-level Condition or Lock) alive from one run to the next."""


PARK_LIMIT_S = 20.0


class StepCap(BaseException):
    """A run used far more simulator steps than any legitimate run needs: the
    code under test polls or retries without ever giving up (livelock)."""


class Hang(Exception):
    """No task is runnable, nothing is scheduled, yet a task is blocked."""


class SimAbort(BaseException):
    """Raised inside parked task threads to unwind them when a run ends."""


class Tape:
    __slots__ = ("values", "spans", "_stack", "_src", "_prefix", "_rng", "labels")

    def __init__(self, prefix=(), seed=0, replay=None, keep_labels=False):
        self.values = []
        self.spans = []
        self._stack = []
        self._src = list(replay) if replay is not None else None
        self._prefix = list(prefix)
        self._rng = random.Random(seed) if replay is None else None
        self.labels = [] if keep_labels else None

    def choice(self, n, label=None):
        if n <= 1:
            if n < 1:
                raise HarnessError("choice(%r)" % (n,))
            v = 0
            i = len(self.values)
            # still consumes a slot so that the tape layout is independent of n
            self.values.append(0)
            if self.labels is not None:
                self.labels.append((label, n))
            return 0
        i = len(self.values)
        src = self._src
        if src is not None:
            v = src[i] if i < len(src) else 0
            if v >= n:
                v %= n
        elif i < len(self._prefix):
            v = self._prefix[i] % n
        else:
            v = self._rng.randrange(n)
        self.values.append(v)
        if self.labels is not None:
            self.labels.append((label, n))
        return v

    def span_open(self, label):
        self._stack.append((len(self.values), label))

    def span_close(self):
        start, label = self._stack.pop()
        self.spans.append((start, len(self.values), label))


class _Span:
    __slots__ = ("tape", "label")

    def __init__(self, tape, label):
        self.tape = tape
        self.label = label

    def __enter__(self):
        self.tape.span_open(self.label)

    def __exit__(self, *a):
        self.tape.span_close()
        return False


class Task:
    """A Mode-T task (real thread holding or waiting for the baton)."""
    __slots__ = ("name", "fn", "thread", "sem", "state", "pred", "deadline",
                 "result", "exc", "daemon_task", "timed_out", "held", "what", "daemon_task_ok", "label")

    def __init__(self, name, fn, daemon_task=False):
        self.name = name
        self.fn = fn
        self.thread = None
        self.sem = threading.Lock()
        self.sem.acquire()
        self.state = "ready"      # ready | blocked | done
        self.pred = None
        self.deadline = None
        self.result = None
        self.exc = None
        self.daemon_task = daemon_task   # receive tasks: not awaited at the end
        self.timed_out = False
        self.held = 0
        self.what = ""
        self.daemon_task_ok = False     # exceptions of this task do not end the run
        self.label = ""                 # threading.Thread name when the code under test (or python-can) started it


class Ctx:
    """Per-run context: tape + kernel + observation sinks."""

    def __init__(self, tape, threaded=False, trace=False, max_steps=400_000):
        self.tape = tape
        self.threaded = threaded
        # clock
        self.now = 1_000 * SEC          # ns, arbitrary non-zero origin
        self.mono_offset = -997 * SEC   # monotonic() epoch differs from time()
        self.wall_offset = 0            # ns added to time.time() only: a stepped wall clock (NTP, operator)
        self.heap = []
        self.seq = 0
        self.steps = 0
        self.max_steps = max_steps
        self.in_event = 0
        self.held = 0                   # SimLocks held by the Mode-I task
        # observation
        self._h = hashlib.blake2b(digest_size=16)
        self.trace = [] if trace else None
        self.cover_keys = set()
        self.cover_calls = 0
        self.faults = {}
        self.probes = {}
        self.notes = {}
        self.obs = {}
        # Mode T
        self.tasks = []
        self.current = None
        self.aborting = False
        self.sched_hash = hashlib.blake2b(digest_size=8) if threaded else None
        self.contested = 0
        self.main_sem = None
        self.cleanup = []

    # ---- tape ---------------------------------------------------------
    def choice(self, n, label=None):
        return self.tape.choice(n, label)

    def span(self, label):
        return _Span(self.tape, label)

    def int(self, lo, hi, label=None):
        return lo + self.tape.choice(hi - lo + 1, label)

    def bool(self, label=None):
        return self.tape.choice(2, label) == 1

    def chance(self, num, den, label=None):
        """True with probability num/den; tape value 0 maps to False."""
        return self.tape.choice(den, label) >= den - num

    def pick(self, seq, label=None):
        return seq[self.tape.choice(len(seq), label)]

    def weighted(self, pairs, label=None):
        """pairs: [(weight, value), ...]; tape value 0 maps to the first."""
        total = 0
        for w, _ in pairs:
            total += w
        v = self.tape.choice(total, label)
        for w, val in pairs:
            if v < w:
                return val
            v -= w
        raise HarnessError("weighted")

    # ---- observation --------------------------------------------------
    def log(self, *items):
        s = repr(items)
        self._h.update(s.encode())
        if self.trace is not None and len(self.trace) < 4000:
            self.trace.append("t=%.6f %s" % ((self.now - 1_000 * SEC) / SEC, s))

    def op(self, *items):
        """log an operation of the scenario (shows up in replay traces)"""
        self.log("op", *items)

    def digest(self):
        return self._h.hexdigest()

    def cover(self, key):
        self.cover_keys.add(key)
        self.cover_calls += 1       # one judged case (a run may judge several)

    def fault(self, kind, n=1):
        self.faults[kind] = self.faults.get(kind, 0) + n

    def probe(self, name, n=1):
        self.probes[name] = self.probes.get(name, 0) + n

    def observe(self, name, n=1):
        self.obs[name] = self.obs.get(name, 0) + n

    def violation(self, key, msg):
        self.log("VIOLATION", key, msg)
        raise Violation(key, msg)

    # ---- clock --------------------------------------------------------
    def time_s(self):
        return self.now / SEC

    def sim_elapsed_s(self):
        return (self.now - 1_000 * SEC) / SEC

    def at(self, t_ns, fn):
        self.seq += 1
        heapq.heappush(self.heap, (t_ns, self.seq, fn))

    def after(self, d_ns, fn):
        self.seq += 1
        heapq.heappush(self.heap, (self.now + d_ns, self.seq, fn))

    def _step(self):
        self.steps += 1
        if self.steps > self.max_steps:
            raise StepCap("step cap %d exceeded" % self.max_steps)

    def _run_due(self):
        """Run every event due at or before now (Mode I, no lock held)."""
        heap = self.heap
        self.in_event += 1
        try:
            while heap and heap[0][0] <= self.now:
                t, _, fn = heapq.heappop(heap)
                self._step()
                fn()
        finally:
            self.in_event -= 1

    def tick(self, ns=US):
        """A clock read or other cheap primitive: costs virtual CPU time and is
        a scheduling point."""
        self.now += ns
        if self.threaded:
            self._yield_t()
        elif not self.in_event and not self.held:
            self._run_due()

    def wait_until(self, pred, deadline=None, what=""):
        """Block the calling task until pred() or the deadline (virtual ns).
        Returns True if pred() held, False on time-out."""
        if self.threaded:
            return self._wait_t(pred, deadline, what)
        heap = self.heap
        if self.in_event and not pred():
            # a blocking wait inside an event callback can only be served by
            # later events; allowed, but nested
            pass
        while True:
            if pred():
                return True
            if not heap or (deadline is not None and heap[0][0] > deadline):
                if deadline is None:
                    raise Hang("blocked forever in %s" % what)
                if deadline > self.now:
                    self.now = deadline
                return pred()
            t, _, fn = heapq.heappop(heap)
            if t > self.now:
                self.now = t
            self._step()
            self.in_event += 1
            try:
                fn()
            finally:
                self.in_event -= 1

    def sleep(self, seconds):
        d = int(seconds * SEC)
        if d < 0:
            d = 0
        deadline = self.now + d
        self.wait_until(lambda: False, deadline, "sleep")
        if self.now < deadline:
            self.now = deadline

    def drain(self, limit_ns=None):
        """Run events until the heap holds nothing but (possibly) periodic
        timers beyond limit, i.e. until no frame is in flight."""
        deadline = None if limit_ns is None else self.now + limit_ns
        if self.threaded:
            self._wait_t(lambda: not self._pending_nonperiodic(), deadline, "drain")
            return
        while self.heap:
            if deadline is not None and self.heap[0][0] > deadline:
                break
            t, _, fn = heapq.heappop(self.heap)
            if t > self.now:
                self.now = t
            self._step()
            self.in_event += 1
            try:
                fn()
            finally:
                self.in_event -= 1
        if deadline is not None and self.now < deadline and not self.heap:
            pass

    def run_for(self, ns):
        """Let virtual time pass for `ns`, running everything that is due."""
        deadline = self.now + ns
        self.wait_until(lambda: False, deadline, "run_for")
        if self.now < deadline:
            self.now = deadline

    def _pending_nonperiodic(self):
        return bool(self.heap)

    # ---- Mode T -------------------------------------------------------
    sched_policy = 0
    stall = None            # callable() -> ns of extra delay after a task was woken (Mode T fault: slow task)
    _end_reason = None
    in_sched = False
    preempt_at = ()         # line-event counts at which a task is pre-empted
    trace_root = None       # only lines of files under this directory count
    line_hook = None        # class-level: tools/linecov.py sets it to collect the lines executed by task threads
    line_root = None
    line_events = 0
    preemptions = 0

    def enable_threads(self, policy=0, preempt_at=(), trace_root=None):
        """Switch this run to Mode T (before the world is built)."""
        self.threaded = True
        self.sched_hash = hashlib.blake2b(digest_size=8)
        self.sched_policy = policy
        self.preempt_at = frozenset(preempt_at)
        self.trace_root = trace_root

    def spawn(self, name, fn, daemon_task=False):
        t = Task(name, fn, daemon_task)
        self.tasks.append(t)
        if self.tasks_running:
            # started by a running task (threading.Thread(...).start() inside the code under test)
            t.thread = threading.Thread(target=self._thread_main, args=(t,), daemon=True)
            t.thread.start()
        return t

    tasks_running = False

    def _tracer(self, frame, event, arg):
        # global trace function of a task thread: trace only canopen frames
        if frame.f_code.co_filename.startswith(self.trace_root or Ctx.line_root):
            if Ctx.line_hook is not None:
                Ctx.line_hook(frame)
            return self._line_tracer
        return None

    def _line_tracer(self, frame, event, arg):
        if event == "line":
            if Ctx.line_hook is not None:
                Ctx.line_hook(frame)
            self.line_events += 1
            if self.line_events in self.preempt_at and not self.in_sched and not self.aborting:
                me = self.current
                if me is not None and threading.current_thread() is me.thread:
                    self.preemptions += 1
                    self.log("preempt", me.name, frame.f_code.co_name, frame.f_lineno)
                    self._dispatch(me, preempted=True)
        return self._line_tracer

    def _thread_main(self, task):
        task.sem.acquire()              # wait for the first baton
        try:
            if self.aborting:
                raise SimAbort()
            if self.preempt_at or Ctx.line_hook is not None:
                import sys
                sys.settrace(self._tracer)
            task.result = task.fn()
        except SimAbort:
            task.state = "done"
            return
        except BaseException as e:      # noqa
            task.exc = e
        finally:
            if self.preempt_at or Ctx.line_hook is not None:
                import sys
                sys.settrace(None)
        task.state = "done"
        if self.aborting:
            return
        self.log("task-done", task.name, type(task.exc).__name__ if task.exc else None)
        if task.exc is not None and self._end_reason is None and not task.daemon_task_ok:
            self._end_reason = task.exc
        # hand the baton on; this thread ends
        self._dispatch(task, final=True)

    def run_tasks(self):
        """Run all spawned tasks to completion under the seeded scheduler.
        Called by the main thread (which is not itself a task)."""
        if not self.threaded:
            raise HarnessError("run_tasks in Mode I")
        self.main_sem = threading.Lock()
        self.main_sem.acquire()
        self._end_reason = None
        for t in self.tasks:
            t.thread = threading.Thread(target=self._thread_main, args=(t,), daemon=True)
            t.thread.start()
        self.tasks_running = True
        self._dispatch(None)
        # parked until the run ends (with a wall-clock guard against a lost baton)
        idle, last = 0.0, -1
        while not self.main_sem.acquire(timeout=2.0):
            if self.steps != last:
                idle, last = 0.0, self.steps
            else:
                idle += 2.0
                if idle >= PARK_LIMIT_S:
                    if os.environ.get("VERIF_DEBUG_PARK"):
                        import faulthandler
                        import sys
                        sys.stderr.write("ALL PARKED: current=%r tasks=%r\n" % (
                            self.current and self.current.name, [(t.name, t.state, t.what, t.sem.locked()) for t in self.tasks]))
                        faulthandler.dump_traceback(all_threads=True)
                    if self._end_reason is None:
                        self._end_reason = AllParked()
                    break
        self.tasks_running = False
        # unwind whatever is still parked
        self.aborting = True
        for t in self.tasks:
            if t.state != "done":
                self.current = t
                try:
                    t.sem.release()
                except RuntimeError:
                    pass
            t.thread.join(10.0)
            if t.thread.is_alive() and not isinstance(self._end_reason, AllParked):
                raise HarnessError("task %s did not unwind" % t.name)
        self.current = None
        self.aborting = False
        self.threaded_finished = True
        r = self._end_reason
        self._end_reason = None
        if isinstance(r, BaseException):
            raise r

    def _runnable(self, t):
        if t.state == "ready":
            return True
        if t.state == "blocked":
            if t.pred is not None and t.pred():
                return True
            if t.deadline is not None and t.deadline <= self.now:
                return True
        return False

    def _dispatch(self, me, final=False, preempted=False):
        """Pick the next task and hand it the baton.  `me` is the caller (a
        Task, or None for the main thread)."""
        self.in_sched = True
        try:
            nxt = self._pick(me)
        except BaseException as e:      # Hang / HarnessError / model error inside the scheduler
            if self._end_reason is None:
                self._end_reason = e
            nxt = None
        finally:
            self.in_sched = False
        if nxt is me and me is not None and not final:
            return
        if nxt is None:
            # the run is over
            self.current = None
            self.main_sem.release()
            if me is not None and not final:
                me.sem.acquire()
                raise SimAbort()
            return
        self.current = nxt
        nxt.sem.release()
        if me is not None and not final:
            me.sem.acquire()
            if self.aborting:
                raise SimAbort()

    def _pick(self, me):
        heap = self.heap
        while True:
            self._step()
            # timers / deliveries that are due run in the scheduler (they are
            # non-blocking by construction)
            while heap and heap[0][0] <= self.now:
                _, _, fn = heapq.heappop(heap)
                fn()
            if self._end_reason is not None:
                return None
            fg = False
            for t in self.tasks:
                if t.state != "done" and not t.daemon_task:
                    fg = True
                    break
            if not fg:
                return None
            cands = [t for t in self.tasks if self._runnable(t)]
            if cands:
                if len(cands) == 1:
                    c = cands[0]
                else:
                    c = self._choose(cands, me)
                if c.state == "blocked":
                    c.timed_out = not (c.pred is not None and c.pred())
                    c.state = "ready"
                return c
            # nobody runnable: advance virtual time
            nxt = heap[0][0] if heap else None
            for t in self.tasks:
                if t.state == "blocked" and t.deadline is not None:
                    if nxt is None or t.deadline < nxt:
                        nxt = t.deadline
            if nxt is None:
                blocked = ["%s(%s)" % (t.name, t.what) for t in self.tasks if t.state == "blocked" and not t.daemon_task]
                raise Hang("tasks blocked forever: %s" % ", ".join(blocked))
            if nxt > self.now:
                self.now = nxt

    def _choose(self, cands, me):
        self.contested += 1
        pol = self.sched_policy
        if pol == 0 or me is None or me not in cands:
            i = self.choice(len(cands), "sched")
        elif self.chance(1, pol, "switch"):
            # change point: somebody else runs
            others = [t for t in cands if t is not me]
            i = cands.index(others[self.choice(len(others), "sched")])
        else:
            i = cands.index(me)
        c = cands[i]
        self.sched_hash.update(("%s/%d;" % (c.name, len(cands))).encode())
        return c

    def _yield_t(self):
        if self.aborting:
            raise SimAbort()
        me = self.current
        if me is None or self.in_sched or threading.current_thread() is not me.thread:
            return          # scheduler / main-thread context: no yield
        self._dispatch(me)

    def _wait_t(self, pred, deadline, what):
        if self.aborting:
            raise SimAbort()
        me = self.current
        if me is None or self.in_sched or threading.current_thread() is not me.thread:
            # called from scheduler or main-thread context: cannot block
            if pred():
                return True
            raise HarnessError("blocking wait outside a task: %s" % what)
        if pred():
            # still a scheduling point
            self._dispatch(me)
            if pred():
                return True
        me.pred = pred
        me.deadline = deadline
        me.what = what
        me.state = "blocked"
        me.timed_out = False
        self._dispatch(me)
        me.pred = None
        me.deadline = None
        ok = not me.timed_out
        if self.stall is not None and ok and what != "stall":
            # a woken thread is not necessarily scheduled at once (slow / stalled task)
            d = self.stall()
            if d:
                self._wait_t(lambda: False, self.now + d, "stall")
        return ok
