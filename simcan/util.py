"""Small helpers shared by the property scenarios."""
import os

from simcan.core import HarnessError, Hang, Violation, SimAbort

_SIMCAN = os.path.dirname(os.path.abspath(__file__))
_PROPS = os.path.join(_SIMCAN, "props")


def origin(exc):
    """'harness' if the exception was raised by simulator/model code,
    'sut' if it comes out of canopen (or the stdlib on canopen's behalf)."""
    if isinstance(exc, (HarnessError, Hang, Violation)):
        return "harness"
    if getattr(exc, "injected_fault", False):
        # an error the simulator raised on purpose in the place of a driver (fault injection): what the code
        # under test makes of it is the code's behaviour
        return "sut"
    tb = exc.__traceback__
    last = None
    while tb is not None:
        last = tb.tb_frame.f_code.co_filename
        tb = tb.tb_next
    if last is None:
        return "sut"
    last = os.path.abspath(last)
    if last.startswith(_SIMCAN) and not last.startswith(_PROPS):
        return "harness"
    return "sut"


def site(exc):
    """'<file>:<function>' of the innermost canopen frame an exception passed
    through (the call site that identifies a defect), or '-'."""
    from simcan import patch
    root = os.path.join(patch.REPO, "canopen")
    tb = exc.__traceback__
    found = "-"
    while tb is not None:
        fn = os.path.abspath(tb.tb_frame.f_code.co_filename)
        if fn.startswith(root):
            found = "%s:%s" % (os.path.basename(fn), tb.tb_frame.f_code.co_name)
        tb = tb.tb_next
    return found


def call(fn, *a, **kw):
    """Run an API call of the system under test.  Returns (result, None) or
    (None, exception).  Simulator-side failures propagate."""
    try:
        return fn(*a, **kw), None
    except (HarnessError, Hang, Violation):
        raise
    except Exception as e:      # noqa
        if origin(e) == "harness":
            raise HarnessError("model/simulator raised %s: %s" % (type(e).__name__, e)) from e
        return None, e


def hexs(b):
    return bytes(b).hex()


def lenclass(n):
    if n <= 8:
        return n
    if n <= 64:
        return 8 + (n % 7)          # residue mod 7 matters (segment boundary)
    if n <= 128:
        return 20
    if n <= 1100:
        return 21 + (n % 7 == 0)
    return 23


def need_bytes(ctx, pid, res, what):
    """The API under test promised bytes: anything else (None, str, int) is a
    wrong result, not a harness problem."""
    if not isinstance(res, (bytes, bytearray, memoryview)):
        ctx.violation("%s/wrong-type-returned/%s" % (pid, type(res).__name__), "%s returned %r instead of bytes" % (what, res))
    return bytes(res)
