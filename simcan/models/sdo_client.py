"""Strict CiA 301 SDO client that drives a server frame by frame and checks
every response.  Written from the standard; does not import canopen."""
from simcan.core import MS


class Nonconformance(Exception):
    def __init__(self, reason, detail=""):
        Exception.__init__(self, "%s %s" % (reason, detail))
        self.reason = reason
        self.detail = detail


class RefSdoClient:
    def __init__(self, ctx, endpoint, rx_cobid, tx_cobid, settle=2 * MS):
        self.ctx = ctx
        self.ep = endpoint
        self.rx = rx_cobid
        self.tx = tx_cobid
        self.settle = settle
        self.inbox = []
        self.state = None
        endpoint.handler = self._on
        self.sent = 0

    def _on(self, can_id, data, rtr, ts):
        if can_id == self.tx and not rtr:
            self.inbox.append(bytes(data))

    def exchange(self, frame):
        """Send one request frame; return all responses that arrive."""
        mark = len(self.inbox)
        self.sent += 1
        self.ep.send(self.rx, bytes(frame))
        self.ctx.run_for(self.settle)
        return self.inbox[mark:]

    def one(self, frame, what):
        rs = self.exchange(frame)
        if len(rs) != 1:
            raise Nonconformance("response-count-%d" % len(rs), "%s: request %s answered by %s" % (what, bytes(frame).hex(), [r.hex() for r in rs]))
        r = rs[0]
        if len(r) != 8:
            raise Nonconformance("response-length-%d" % len(r), "%s: request %s answered by %s" % (what, bytes(frame).hex(), r.hex()))
        return r

    @staticmethod
    def is_abort(r):
        return r[0] == 0x80

    @staticmethod
    def abort_info(r):
        return int.from_bytes(r[4:8], "little"), (r[1] | r[2] << 8, r[3])

    # ---- upload --------------------------------------------------------
    def init_upload(self, index, sub):
        req = bytes([0x40, index & 0xFF, index >> 8, sub, 0, 0, 0, 0])
        r = self.one(req, "initiate upload %04X:%02X" % (index, sub))
        self.state = None
        if self.is_abort(r):
            code, mux = self.abort_info(r)
            return {"kind": "abort", "code": code, "mux": mux, "frame": r}
        if r[0] >> 5 != 2:
            raise Nonconformance("upload-initiate-scs-%d" % (r[0] >> 5), r.hex())
        if (r[1] | r[2] << 8, r[3]) != (index, sub):
            raise Nonconformance("upload-initiate-multiplexer", "asked %04X:%02X got %s" % (index, sub, r.hex()))
        if r[0] & 0x10:
            raise Nonconformance("upload-initiate-reserved-bit", r.hex())
        e = (r[0] >> 1) & 1
        s = r[0] & 1
        n = (r[0] >> 2) & 3
        if e:
            if s:
                return {"kind": "exp", "data": r[4:8 - n], "frame": r}
            if n:
                raise Nonconformance("upload-initiate-n-without-s", r.hex())
            return {"kind": "exp", "data": r[4:8], "sizeless": True, "frame": r}
        if n:
            raise Nonconformance("upload-initiate-n-in-segmented", r.hex())
        size = int.from_bytes(r[4:8], "little") if s else None
        self.state = {"k": "up", "toggle": 0, "got": bytearray(), "size": size, "index": index, "sub": sub}
        return {"kind": "seg", "size": size, "frame": r}

    def upload_segment(self):
        st = self.state
        if st is None:
            raise Nonconformance("transfer-ended-by-server", "the server had already ended the transfer (abort) when the next upload segment was due")
        t = st["toggle"]
        r = self.one(bytes([0x60 | t << 4, 0, 0, 0, 0, 0, 0, 0]), "upload segment")
        if self.is_abort(r):
            self.state = None
            code, mux = self.abort_info(r)
            return {"kind": "abort", "code": code, "mux": mux, "frame": r}
        if r[0] >> 5 != 0:
            raise Nonconformance("upload-segment-scs-%d" % (r[0] >> 5), r.hex())
        if (r[0] >> 4) & 1 != t:
            raise Nonconformance("upload-segment-toggle", "expected %d: %s" % (t, r.hex()))
        n = (r[0] >> 1) & 7
        c = r[0] & 1
        st["got"] += r[1:8 - n]
        st["toggle"] ^= 1
        if c:
            self.state = None
        return {"kind": "segment", "last": bool(c), "n": n, "frame": r}

    def upload(self, index, sub, max_segments=3000):
        """Complete undisturbed upload.  Returns ('data', bytes, info) or ('abort', code, mux)."""
        r = self.init_upload(index, sub)
        if r["kind"] == "abort":
            return ("abort", r["code"], r["mux"], "initiate")
        if r["kind"] == "exp":
            return ("data", bytes(r["data"]), {"style": "exp", "sizeless": r.get("sizeless", False)})
        size = r["size"]
        st = self.state
        nseg = 0
        while True:
            nseg += 1
            if nseg > max_segments:
                raise Nonconformance("upload-never-ends", "no last-segment flag after %d segments" % nseg)
            seg = self.upload_segment()
            if seg["kind"] == "abort":
                return ("abort", seg["code"], seg["mux"], "segment")
            if size is not None:
                if len(st["got"]) > size:
                    raise Nonconformance("upload-more-data-than-announced", "announced %d, got %d" % (size, len(st["got"])))
                if seg["last"] != (len(st["got"]) == size):
                    raise Nonconformance("upload-last-flag-vs-announced-size",
                                         "announced %d bytes, %d delivered, c=%d" % (size, len(st["got"]), seg["last"]))
            if seg["last"]:
                break
            if seg["n"] == 7:
                raise Nonconformance("upload-empty-segment-not-last", seg["frame"].hex())
        return ("data", bytes(st["got"]), {"style": "seg", "size": size, "segments": nseg})

    # ---- download ------------------------------------------------------
    def init_download(self, index, sub, data, mode):
        """mode: 'exp' (1..4 bytes, size indicated), 'exp-nosize' (4 bytes), 'seg' (size indicated), 'seg-nosize'."""
        hdr = bytes([index & 0xFF, index >> 8, sub])
        if mode == "exp":
            n = 4 - len(data)
            req = bytes([0x23 | n << 2]) + hdr + bytes(data) + bytes(n)
        elif mode == "exp-nosize":
            req = bytes([0x22]) + hdr + bytes(data)
        elif mode == "seg":
            req = bytes([0x21]) + hdr + len(data).to_bytes(4, "little")
        else:
            req = bytes([0x20]) + hdr + bytes(4)
        r = self.one(req, "initiate download %04X:%02X" % (index, sub))
        self.state = None
        if self.is_abort(r):
            code, mux = self.abort_info(r)
            return {"kind": "abort", "code": code, "mux": mux, "frame": r}
        if r[0] != 0x60:
            raise Nonconformance("download-initiate-response-%02X" % r[0], r.hex())
        if (r[1] | r[2] << 8, r[3]) != (index, sub):
            raise Nonconformance("download-initiate-multiplexer", "asked %04X:%02X got %s" % (index, sub, r.hex()))
        if mode.startswith("seg"):
            self.state = {"k": "down", "toggle": 0, "index": index, "sub": sub}
        return {"kind": "ok", "frame": r}

    def download_segment(self, chunk, last, toggle=None):
        st = self.state
        if st is None:
            raise Nonconformance("transfer-ended-by-server", "the server had already ended the transfer (abort) when the next download segment was due")
        t = st["toggle"] if toggle is None else toggle
        n = 7 - len(chunk)
        req = bytes([t << 4 | n << 1 | (1 if last else 0)]) + bytes(chunk) + bytes(n)
        r = self.one(req, "download segment")
        if self.is_abort(r):
            self.state = None
            code, mux = self.abort_info(r)
            return {"kind": "abort", "code": code, "mux": mux, "frame": r}
        if r[0] >> 5 != 1:
            raise Nonconformance("download-segment-scs-%d" % (r[0] >> 5), r.hex())
        if (r[0] >> 4) & 1 != t:
            raise Nonconformance("download-segment-toggle", "sent %d: %s" % (t, r.hex()))
        st["toggle"] ^= 1
        if last:
            self.state = None
        return {"kind": "ok", "frame": r}

    def download(self, index, sub, data, mode, seg_len=None):
        """Complete undisturbed download.  Returns ('ok',) or ('abort', code, mux, stage)."""
        r = self.init_download(index, sub, data, mode)
        if r["kind"] == "abort":
            return ("abort", r["code"], r["mux"], "initiate")
        if mode.startswith("exp"):
            return ("ok",)
        pos = 0
        data = bytes(data)
        while True:
            ln = 7 if seg_len is None else seg_len()
            chunk = data[pos:pos + ln]
            pos += len(chunk)
            last = pos >= len(data)
            r = self.download_segment(chunk, last)
            if r["kind"] == "abort":
                return ("abort", r["code"], r["mux"], "last-segment" if last else "segment")
            if last:
                return ("ok",)
