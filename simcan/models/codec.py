"""CiA 301 data type encodings written from the standard (independent of
canopen.objectdictionary): little-endian two's complement integers, IEEE 754
reals, ASCII / UTF-16-LE strings."""
import struct

BOOLEAN = 0x1
INTEGER8 = 0x2
INTEGER16 = 0x3
INTEGER32 = 0x4
UNSIGNED8 = 0x5
UNSIGNED16 = 0x6
UNSIGNED32 = 0x7
REAL32 = 0x8
VISIBLE_STRING = 0x9
OCTET_STRING = 0xA
UNICODE_STRING = 0xB
TIME_OF_DAY = 0xC
DOMAIN = 0xF
INTEGER24 = 0x10
REAL64 = 0x11
INTEGER40 = 0x12
INTEGER48 = 0x13
INTEGER56 = 0x14
INTEGER64 = 0x15
UNSIGNED24 = 0x16
UNSIGNED40 = 0x18
UNSIGNED48 = 0x19
UNSIGNED56 = 0x1A
UNSIGNED64 = 0x1B

SIGNED = {INTEGER8: 8, INTEGER16: 16, INTEGER24: 24, INTEGER32: 32, INTEGER40: 40, INTEGER48: 48,
          INTEGER56: 56, INTEGER64: 64}
UNSIGNED = {UNSIGNED8: 8, UNSIGNED16: 16, UNSIGNED24: 24, UNSIGNED32: 32, UNSIGNED40: 40, UNSIGNED48: 48,
            UNSIGNED56: 56, UNSIGNED64: 64}
INTS = dict(SIGNED)
INTS.update(UNSIGNED)
NUMERIC = set(INTS) | {REAL32, REAL64}
FIXED = set(NUMERIC) | {BOOLEAN}
STRINGS = {VISIBLE_STRING, OCTET_STRING, UNICODE_STRING, DOMAIN}
ALL_TYPES = sorted(FIXED | STRINGS)
NAMES = {BOOLEAN: "BOOLEAN", REAL32: "REAL32", REAL64: "REAL64", VISIBLE_STRING: "VISIBLE_STRING",
         OCTET_STRING: "OCTET_STRING", UNICODE_STRING: "UNICODE_STRING", DOMAIN: "DOMAIN"}
for _t, _w in SIGNED.items():
    NAMES[_t] = "INTEGER%d" % _w
for _t, _w in UNSIGNED.items():
    NAMES[_t] = "UNSIGNED%d" % _w


def width_bytes(dt):
    if dt == BOOLEAN:
        return 1
    if dt in INTS:
        return INTS[dt] // 8
    if dt == REAL32:
        return 4
    if dt == REAL64:
        return 8
    return None


def encode(dt, value):
    if isinstance(value, (bytes, bytearray)):
        return bytes(value)
    if dt == BOOLEAN:
        return b"\x01" if value else b"\x00"
    if dt in SIGNED:
        return int(value).to_bytes(SIGNED[dt] // 8, "little", signed=True)
    if dt in UNSIGNED:
        return int(value).to_bytes(UNSIGNED[dt] // 8, "little", signed=False)
    if dt == REAL32:
        return struct.pack("<f", value)
    if dt == REAL64:
        return struct.pack("<d", value)
    if dt == VISIBLE_STRING:
        return value.encode("ascii")
    if dt == UNICODE_STRING:
        return value.encode("utf-16-le")
    return bytes(value)


def decode(dt, data):
    data = bytes(data)
    if dt == BOOLEAN:
        return data != b"\x00"
    if dt in SIGNED:
        return int.from_bytes(data, "little", signed=True)
    if dt in UNSIGNED:
        return int.from_bytes(data, "little", signed=False)
    if dt == REAL32:
        return struct.unpack("<f", data)[0]
    if dt == REAL64:
        return struct.unpack("<d", data)[0]
    if dt == VISIBLE_STRING:
        return data.decode("ascii")
    if dt == UNICODE_STRING:
        return data.decode("utf-16-le")
    return data


def int_range(dt):
    if dt in SIGNED:
        w = SIGNED[dt]
        return -(1 << (w - 1)), (1 << (w - 1)) - 1
    w = UNSIGNED[dt]
    return 0, (1 << w) - 1


def boundary_values(dt):
    lo, hi = int_range(dt)
    vals = {lo, hi, 0, 1, lo + 1, hi - 1}
    if lo < 0:
        vals |= {-1, -2}
    w = INTS[dt]
    for k in range(7, w, 8):
        for d in (-1, 0, 1):
            for s in (1, -1):
                v = s * ((1 << k) + d)
                if lo <= v <= hi:
                    vals.add(v)
    for k in range(8, w, 8):
        for d in (-1, 0, 1):
            v = (1 << k) + d
            if lo <= v <= hi:
                vals.add(v)
    return sorted(vals)
