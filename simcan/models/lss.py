"""CiA 305 LSS slave (reference model) with a request monitor.  Does not import canopen."""

WAITING, CONFIGURATION = 0, 1
VALID_CS = {0x04, 0x11, 0x13, 0x15, 0x17, 0x40, 0x41, 0x42, 0x43, 0x46, 0x47, 0x48, 0x49, 0x4A, 0x4B, 0x4C, 0x51, 0x5A, 0x5B, 0x5C, 0x5D, 0x5E}


class RefLssSlave:
    def __init__(self, ctx, endpoint, identity, node_id=0xFF, resp_delay=0):
        self.ctx = ctx
        self.ep = endpoint
        self.identity = list(identity)       # vendor, product, revision, serial
        self.node_id = node_id               # 0xFF = unconfigured
        self.pending_node_id = node_id
        self.state = WAITING
        self.lss_pos = 0
        self.sel = [None] * 4
        self.illegal = []
        self.requests = []
        self.resp_delay = resp_delay
        self.bit_timing = None
        self.stored = 0
        self.activated = None
        # reply disturbance for configure / inquire / store: None | ("error", code, spec) | ("wrong-cs", cs) | ("silent",)
        self.reply_mode = None
        # a busy device: [n, extra] = the n-th reply from now on leaves `extra` ns later than usual (still inside the master's time-out)
        self.slow_reply = None
        endpoint.handler = self.handler

    def _bad(self, reason, d):
        self.illegal.append((reason, bytes(d).hex()))

    def _send(self, data):
        extra = 0
        m = self.reply_mode
        if m is not None and m[0] == "late":
            extra = m[1]
        if self.slow_reply is not None:
            self.slow_reply[0] -= 1
            if self.slow_reply[0] == 0:
                extra += self.slow_reply[1]
                self.slow_reply = None
                self.ctx.probe("slow-reply-inside-timeout")
        self.ep.send(0x7E4, bytes(data), delay=self.resp_delay + extra)

    def handler(self, can_id, data, rtr, ts):
        if can_id != 0x7E5:
            return
        d = bytes(data)
        self.requests.append(d)
        if rtr:
            self._bad("remote-frame", d)
            return
        if len(d) != 8:
            self._bad("length-%d" % len(d), d)
            d = (d + bytes(8))[:8]
        cs = d[0]
        if cs not in VALID_CS:
            self._bad("unknown-cs-%02X" % cs, d)
            return
        if cs == 0x04:
            if d[1] not in (0, 1):
                self._bad("switch-global-mode-%d" % d[1], d)
            if any(d[2:]):
                self._bad("reserved-nonzero", d)
            self.state = CONFIGURATION if d[1] == 1 else WAITING
            return
        if 0x40 <= cs <= 0x43:
            if any(d[5:]):
                self._bad("reserved-nonzero", d)
            self.sel[cs - 0x40] = int.from_bytes(d[1:5], "little")
            if cs == 0x43:
                if self.sel == self.identity and self.state == WAITING:
                    self.state = CONFIGURATION
                    self._send(bytes([0x44, 0, 0, 0, 0, 0, 0, 0]))
                self.sel = [None] * 4
            return
        if cs == 0x51:
            idn = int.from_bytes(d[1:5], "little")
            bit_check, sub, nxt = d[5], d[6], d[7]
            if not (bit_check <= 31 or bit_check == 0x80):
                self._bad("fastscan-bitcheck-%d" % bit_check, d)
                return
            if bit_check != 0x80 and (sub > 3 or nxt > 3):
                self._bad("fastscan-sub-%d-next-%d" % (sub, nxt), d)
                return
            if self.node_id != 0xFF or self.state != WAITING:
                return
            if bit_check == 0x80:
                self.lss_pos = 0
                self._send(bytes([0x4F, 0, 0, 0, 0, 0, 0, 0]))
                return
            if sub != self.lss_pos:
                return
            mask = (0xFFFFFFFF << bit_check) & 0xFFFFFFFF
            if (self.identity[sub] & mask) == (idn & mask):
                self._send(bytes([0x4F, 0, 0, 0, 0, 0, 0, 0]))
                if bit_check == 0:
                    self.lss_pos = nxt
                    if nxt < sub:
                        self.state = CONFIGURATION
            return
        if cs == 0x4C:
            if self.node_id == 0xFF:
                self._send(bytes([0x50, 0, 0, 0, 0, 0, 0, 0]))
            return
        if 0x46 <= cs <= 0x4B:
            return
        # the services below act in configuration state only
        if self.state != CONFIGURATION:
            return
        if cs == 0x15:
            if any(d[3:]):
                self._bad("reserved-nonzero", d)
            self.activated = d[1] | d[2] << 8
            return
        mode = self.reply_mode
        if mode is not None and mode[0] == "silent":
            return
        rcs = cs
        if mode is not None and mode[0] == "wrong-cs":
            rcs = mode[1]
        if cs == 0x11:
            if any(d[2:]):
                self._bad("reserved-nonzero", d)
            nid = d[1]
            ok = 1 <= nid <= 127 or nid == 0xFF
            err, spec = (0, 0) if ok else (1, 0)
            if mode is not None and mode[0] == "error":
                err, spec = mode[1], mode[2]
            if err == 0:
                self.pending_node_id = nid
            self._send(bytes([rcs, err, spec, 0, 0, 0, 0, 0]))
        elif cs == 0x13:
            if any(d[3:]):
                self._bad("reserved-nonzero", d)
            ok = d[1] == 0 and d[2] <= 9 and d[2] != 5 or True
            err, spec = (0, 0)
            if d[1] != 0:
                self.table_selector = d[1]
            if mode is not None and mode[0] == "error":
                err, spec = mode[1], mode[2]
            if err == 0:
                self.bit_timing = (d[1], d[2])
            self._send(bytes([rcs, err, spec, 0, 0, 0, 0, 0]))
        elif cs == 0x17:
            if any(d[1:]):
                self._bad("reserved-nonzero", d)
            err, spec = (0, 0)
            if mode is not None and mode[0] == "error":
                err, spec = mode[1], mode[2]
            if err == 0:
                self.stored += 1
            self._send(bytes([rcs, err, spec, 0, 0, 0, 0, 0]))
        elif 0x5A <= cs <= 0x5D:
            if any(d[1:]):
                self._bad("reserved-nonzero", d)
            self._send(bytes([rcs]) + self.identity[cs - 0x5A].to_bytes(4, "little") + bytes(3))
        elif cs == 0x5E:
            if any(d[1:]):
                self._bad("reserved-nonzero", d)
            self._send(bytes([rcs, self.pending_node_id, 0, 0, 0, 0, 0, 0]))
