"""Strict CiA 301 SDO server over a byte store, with a request monitor.

Written from the standard; does not import canopen.  Used as the
"standard-conformant server" of C01, C03(partly), C07, C09, C12, C13, C19.

The monitor records in `self.illegal` every client frame that is not a legal
CiA 301 frame for the current protocol step (reason strings are stable: they
become part of violation class keys).
"""
from simcan.core import SEC, MS


def crc16_xmodem(data, crc=0):
    """CRC-16/XMODEM (poly 0x1021, init 0) computed bitwise."""
    for b in data:
        crc ^= b << 8
        for _ in range(8):
            if crc & 0x8000:
                crc = ((crc << 1) ^ 0x1021) & 0xFFFF
            else:
                crc = (crc << 1) & 0xFFFF
    return crc


ABORT_TOGGLE = 0x05030000
ABORT_TIMEOUT = 0x05040000
ABORT_CMD = 0x05040001
ABORT_BLKSIZE = 0x05040002
ABORT_SEQNO = 0x05040003
ABORT_CRC = 0x05040004
ABORT_NOT_EXIST = 0x06020000
ABORT_NO_SUB = 0x06090011
ABORT_RO = 0x06010002
ABORT_WO = 0x06010001
ABORT_UNSUPPORTED = 0x06010000
ABORT_LEN = 0x06070010


class Style:
    """Per-transfer response style (set by the scenario before a transfer)."""
    up = "auto"             # auto | exp_size | exp_nosize | seg_size | seg_nosize
    seg_len = None          # callable() -> 1..7 ; None = always 7
    blksize = None          # callable() -> 1..127 ; None = 127
    crc = True              # server supports CRC in block mode
    blk_size_indicated = True
    stall_timeout = 150 * MS


class RefSdoServer:
    def __init__(self, ctx, endpoint, rx_cobid, tx_cobid, store=None):
        self.ctx = ctx
        self.ep = endpoint
        self.rx_cobid = rx_cobid
        self.tx_cobid = tx_cobid
        self.store = store if store is not None else {}
        self.style = Style()
        self.state = None
        self.illegal = []       # (reason, frame hex)
        self.commits = []       # (index, sub, bytes) in commit order
        self.write_hook = None  # callable(index, sub, data) -> abort code or None
        self.read_hook = None   # callable(index, sub) -> bytes | int abort code | None
        self.requests = 0
        self.responses = 0
        self.aborts_rx = []     # abort frames received from the client (code, index, sub)
        self.aborts_tx = []
        self.resp_delay = 0
        self.served = []        # (kind, index, sub) of transfers completed
        self.last_activity = 0
        self.paths = set()

    # ------------------------------------------------------------------
    def handler(self, can_id, data, rtr, ts):
        if can_id != self.rx_cobid or rtr:
            return
        self.on_request(bytes(data))

    def _send(self, data):
        self.responses += 1
        self.ep.send(self.tx_cobid, bytes(data), delay=self.resp_delay)

    def _bad(self, reason, frame):
        self.illegal.append((reason, frame.hex()))

    def _abort(self, index, sub, code):
        self.state = None
        self.aborts_tx.append(code)
        self._send(bytes([0x80, index & 0xFF, index >> 8, sub]) + code.to_bytes(4, "little"))

    # ------------------------------------------------------------------
    def on_request(self, d):
        self.requests += 1
        self.last_activity = self.ctx.now
        st = self.state
        if len(d) != 8:
            self._bad("length-not-8", d)
            if len(d) == 0:
                return
            d = (d + bytes(8))[:8]
        if st is not None and st["k"] == "bd" and st["phase"] == "sub":
            if d[0] == 0x80:
                self._client_abort(d)
                return
            self._bd_segment(d)
            return
        ccs = d[0] >> 5
        if ccs == 4:
            self._client_abort(d)
        elif ccs == 1:
            self._init_download(d)
        elif ccs == 0:
            self._seg_download(d)
        elif ccs == 2:
            self._init_upload(d)
        elif ccs == 3:
            self._seg_upload(d)
        elif ccs == 6:
            self._block_download(d)
        elif ccs == 5:
            self._block_upload(d)
        else:
            self._bad("undefined-ccs", d)
            self._abort(0, 0, ABORT_CMD)

    def _client_abort(self, d):
        index = d[1] | d[2] << 8
        code = int.from_bytes(d[4:8], "little")
        self.aborts_rx.append((code, index, d[3]))
        self.state = None

    # -- download ------------------------------------------------------
    def _commit(self, index, sub, data, kind):
        data = bytes(data)
        if self.write_hook is not None:
            code = self.write_hook(index, sub, data)
            if code is not None:
                self._abort(index, sub, code)
                return False
        self.store[(index, sub)] = data
        self.commits.append((index, sub, data))
        self.served.append((kind, index, sub))
        return True

    def _init_download(self, d):
        c = d[0]
        index = d[1] | d[2] << 8
        sub = d[3]
        e = (c >> 1) & 1
        s = c & 1
        n = (c >> 2) & 3
        if c & 0x10:
            self._bad("init-download-reserved-bit", d)
        self.state = None
        if e:
            if s:
                size = 4 - n
                if any(d[4 + size:8]):
                    self._bad("expedited-padding-nonzero", d)
            else:
                if n:
                    self._bad("n-set-without-size", d)
                size = 4
            self.paths.add("dl-exp")
            if self._commit(index, sub, d[4:4 + size], "dl-exp"):
                self._send(bytes([0x60, d[1], d[2], sub, 0, 0, 0, 0]))
            return
        if n:
            self._bad("n-set-in-segmented-initiate", d)
        if self.abort_plan is not None and self.abort_plan[0] == "init":
            code = self.abort_plan[2]
            self.abort_plan = None
            self._abort(index, sub, code)
            return
        size = None
        if s:
            size = int.from_bytes(d[4:8], "little")
        elif any(d[4:8]):
            self._bad("initiate-reserved-nonzero", d)
        self.paths.add("dl-seg")
        self.state = {"k": "sd", "index": index, "sub": sub, "size": size,
                      "toggle": 0, "buf": bytearray()}
        self._send(bytes([0x60, d[1], d[2], sub, 0, 0, 0, 0]))

    abort_plan = None       # (stage, k, code): abort the k-th segment request of the next transfer

    def _planned_abort(self, st):
        p = self.abort_plan
        if p is None or p[0] != "seg":
            return False
        st["nseg"] = st.get("nseg", 0) + 1
        if st["nseg"] - 1 == p[1]:
            self.abort_plan = None
            self._abort(st["index"], st["sub"], p[2])
            return True
        return False

    def _seg_download(self, d):
        st = self.state
        if st is not None and st["k"] == "sd" and self._planned_abort(st):
            return
        if st is None or st["k"] != "sd":
            self._bad("segment-without-download", d)
            self._abort(0, 0, ABORT_CMD)
            return
        c = d[0]
        t = (c >> 4) & 1
        n = (c >> 1) & 7
        last = c & 1
        if t != st["toggle"]:
            self._bad("toggle", d)
            self._abort(st["index"], st["sub"], ABORT_TOGGLE)
            return
        if any(d[8 - n:8]):
            self._bad("segment-padding-nonzero", d)
        st["buf"] += d[1:8 - n]
        if n == 7 and last:
            self.paths.add("closing-empty-segment")
        if st["size"] is not None and len(st["buf"]) > st["size"]:
            self._bad("more-bytes-than-declared", d)
        st["toggle"] ^= 1
        if last:
            if st["size"] is not None and len(st["buf"]) != st["size"]:
                self._bad("declared-size-mismatch", d)
                self._abort(st["index"], st["sub"], ABORT_LEN)
                return
            self.state = None
            if not self._commit(st["index"], st["sub"], st["buf"], "dl-seg"):
                return
        self._send(bytes([0x20 | t << 4, 0, 0, 0, 0, 0, 0, 0]))

    # -- upload --------------------------------------------------------
    def _read(self, index, sub):
        if self.read_hook is not None:
            r = self.read_hook(index, sub)
            if r is not None:
                return r
        if (index, sub) not in self.store:
            return ABORT_NOT_EXIST
        return self.store[(index, sub)]

    def _init_upload(self, d):
        index = d[1] | d[2] << 8
        sub = d[3]
        if d[0] & 0x1F:
            self._bad("init-upload-reserved-bits", d)
        if any(d[4:8]):
            self._bad("init-upload-reserved-nonzero", d)
        self.state = None
        data = self._read(index, sub)
        if isinstance(data, int):
            self._abort(index, sub, data)
            return
        self._start_upload(index, sub, data, d)

    def _start_upload(self, index, sub, data, d):
        style = self.style.up
        ln = len(data)
        if style == "auto":
            style = "exp_size" if 1 <= ln <= 4 else "seg_size"
        if style == "exp_nosize" and ln != 4:
            style = "exp_size"
        if style == "exp_size" and not 1 <= ln <= 4:
            style = "seg_size"
        self.paths.add("ul-" + style)
        hdr = bytes([d[1], d[2], sub])
        if style == "exp_size":
            self.served.append(("ul-exp", index, sub))
            self._send(bytes([0x43 | (4 - ln) << 2]) + hdr + data + bytes(4 - ln))
        elif style == "exp_nosize":
            self.served.append(("ul-exp", index, sub))
            self._send(bytes([0x42]) + hdr + data)
        else:
            self.state = {"k": "su", "index": index, "sub": sub, "data": bytes(data),
                          "pos": 0, "toggle": 0}
            if style == "seg_size":
                self._send(bytes([0x41]) + hdr + ln.to_bytes(4, "little"))
            else:
                self._send(bytes([0x40]) + hdr + bytes(4))

    def _seg_upload(self, d):
        st = self.state
        if st is not None and st["k"] == "su" and self._planned_abort(st):
            return
        if st is None or st["k"] != "su":
            self._bad("segment-without-upload", d)
            self._abort(0, 0, ABORT_CMD)
            return
        t = (d[0] >> 4) & 1
        if d[0] & 0x0F:
            self._bad("seg-upload-reserved-bits", d)
        if any(d[1:8]):
            self._bad("seg-upload-reserved-nonzero", d)
        if t != st["toggle"]:
            self._bad("toggle", d)
            self._abort(st["index"], st["sub"], ABORT_TOGGLE)
            return
        remaining = len(st["data"]) - st["pos"]
        ln = 7
        if self.style.seg_len is not None:
            ln = self.style.seg_len()
        if ln > remaining:
            ln = remaining
        chunk = st["data"][st["pos"]:st["pos"] + ln]
        st["pos"] += ln
        last = 1 if st["pos"] >= len(st["data"]) else 0
        st["toggle"] ^= 1
        if last:
            self.state = None
            self.served.append(("ul-seg", st["index"], st["sub"]))
        self._send(bytes([t << 4 | (7 - ln) << 1 | last]) + chunk + bytes(7 - ln))

    # -- block download ------------------------------------------------
    def _next_blksize(self):
        if self.style.blksize is not None:
            b = self.style.blksize()
            if not 1 <= b <= 127:
                raise ValueError("blksize")
            return b
        return 127

    def _block_download(self, d):
        c = d[0]
        cs = c & 1
        st = self.state
        if cs == 0:
            # initiate
            index = d[1] | d[2] << 8
            sub = d[3]
            if c & 0x18:
                self._bad("block-init-reserved-bits", d)
            s = (c >> 1) & 1
            cc = (c >> 2) & 1
            size = None
            if s:
                size = int.from_bytes(d[4:8], "little")
            elif any(d[4:8]):
                self._bad("block-init-size-nonzero", d)
            hook = self.write_hook
            crc_on = bool(cc and self.style.crc)
            blk = self._next_blksize()
            self.paths.add("bd")
            self.state = {"k": "bd", "phase": "sub", "index": index, "sub": sub,
                          "size": size, "crc": crc_on, "blksize": blk, "expected": 1,
                          "ackseq": 0, "segs": [], "last_seen": False, "gen": 0,
                          "ooo": 0, "subblocks": 0, "retx": 0}
            self.bd_accepted = []
            self.bd_enders = []     # segment frames that ended a sub-block (made the server acknowledge)
            self._arm_stall()
            self._send(bytes([0xA0 | (4 if self.style.crc else 0), d[1], d[2], sub, blk, 0, 0, 0]))
            return
        # end block download
        if st is None or st["k"] != "bd" or st["phase"] != "end":
            self._bad("block-end-unexpected", d)
            self._abort(0, 0, ABORT_CMD)
            return
        if c & 0x02:
            self._bad("block-end-reserved-bit", d)
        n = (c >> 2) & 7
        if any(d[3:8]):
            self._bad("block-end-reserved-nonzero", d)
        raw = b"".join(st["segs"])
        if n > 7 or (st["segs"] and n > 6 and len(raw) >= 7 and False):
            pass
        if not st["segs"]:
            data = b""
            if n:
                self._bad("block-end-n-without-data", d)
        else:
            tail = st["segs"][-1]
            if any(tail[7 - n:7]):
                self._bad("block-last-segment-padding-nonzero", d)
            data = raw[:len(raw) - n]
        self.state = None
        if st["size"] is not None and len(data) != st["size"]:
            self._bad("block-size-mismatch(declared=%d,got=%d)" % (st["size"], len(data)), d)
            self._abort(st["index"], st["sub"], ABORT_LEN)
            return
        if st["crc"]:
            crc = d[1] | d[2] << 8
            if crc != crc16_xmodem(data):
                self._bad("block-crc-mismatch", d)
                self._abort(st["index"], st["sub"], ABORT_CRC)
                return
        elif d[1] or d[2]:
            self._bad("block-end-crc-nonzero-without-crc", d)
        self.bd_stats = {"subblocks": st["subblocks"], "ooo": st["ooo"], "retx": st["retx"]}
        if not self._commit(st["index"], st["sub"], data, "bd"):
            return
        self._send(bytes([0xA1, 0, 0, 0, 0, 0, 0, 0]))

    def _arm_stall(self):
        st = self.state
        st["gen"] += 1
        gen = st["gen"]
        self.ctx.after(self.style.stall_timeout, lambda: self._stall(st, gen))

    def _stall(self, st, gen):
        if self.state is st and st["gen"] == gen and st["phase"] == "sub":
            self.stalled = True
            self._abort(st["index"], st["sub"], ABORT_TIMEOUT)

    stalled = False
    bd_stats = None
    bd_accepted = ()
    bd_enders = ()

    def _bd_segment(self, d):
        st = self.state
        seq = d[0] & 0x7F
        c = d[0] >> 7
        self._arm_stall()
        if seq == 0:
            self._bad("block-seqno-0", d)
            return
        if seq > st["blksize"]:
            self._bad("block-seqno-beyond-blksize(%d>%d)" % (seq, st["blksize"]), d)
            return
        if st["last_seen"]:
            self._bad("block-segment-after-last", d)
            return
        in_order = seq == st["expected"]
        if in_order:
            self.bd_accepted.append(bytes(d))
            st["segs"].append(d[1:8])
            st["ackseq"] = seq
            st["expected"] += 1
            if c:
                st["last_seen"] = True
            if st["size"] is not None and 7 * len(st["segs"]) - 6 > st["size"] and not c:
                # more segments than the declared size can hold and still no c
                self._bad("block-more-data-than-declared", d)
        else:
            st["ooo"] += 1
        if seq == st["blksize"] or c:
            # end of this sub-block
            self.bd_enders.append(bytes(d))
            ack = st["ackseq"]
            st["subblocks"] += 1
            if ack != st["blksize"] and not (c and in_order):
                st["retx"] += 1
            if st["last_seen"]:
                st["phase"] = "end"
                st["gen"] += 1
                blk = self._next_blksize()
            else:
                blk = self._next_blksize()
                st["blksize"] = blk
                st["expected"] = 1
                st["ackseq"] = 0
            self._send(bytes([0xA2, ack, blk, 0, 0, 0, 0, 0]))

    # -- block upload --------------------------------------------------
    def _block_upload(self, d):
        c = d[0]
        cs = c & 3
        st = self.state
        if cs == 0:
            index = d[1] | d[2] << 8
            sub = d[3]
            if c & 0x18:
                self._bad("block-upload-init-reserved-bits", d)
            cc = (c >> 2) & 1
            blk = d[4]
            if not 1 <= blk <= 127:
                self._bad("block-upload-blksize-%d" % blk, d)
                self._abort(index, sub, ABORT_BLKSIZE)
                return
            if any(d[6:8]):
                self._bad("block-upload-init-reserved-nonzero", d)
            data = self._read(index, sub)
            if isinstance(data, int):
                self._abort(index, sub, data)
                return
            crc_on = bool(cc and self.style.crc)
            self.paths.add("bu")
            self.state = {"k": "bu", "phase": "init", "index": index, "sub": sub,
                          "data": bytes(data), "pos": 0, "blksize": blk, "crc": crc_on,
                          "sent": 0, "subblocks": 0, "retx": 0}
            s = 1 if self.style.blk_size_indicated else 0
            size = len(data) if s else 0
            self._send(bytes([0xC0 | (4 if self.style.crc else 0) | s << 1, d[1], d[2], sub])
                       + size.to_bytes(4, "little"))
            return
        if st is None or st["k"] != "bu":
            self._bad("block-upload-unexpected-cs%d" % cs, d)
            self._abort(0, 0, ABORT_CMD)
            return
        if c & 0x1C:
            self._bad("block-upload-reserved-bits", d)
        if cs == 3:
            if st["phase"] != "init":
                self._bad("block-upload-start-unexpected", d)
            if any(d[1:8]):
                self._bad("block-upload-start-reserved-nonzero", d)
            self._bu_send_subblock()
        elif cs == 2:
            if st["phase"] != "sub":
                self._bad("block-upload-ack-unexpected", d)
                return
            ack = d[1]
            blk = d[2]
            if any(d[3:8]):
                self._bad("block-upload-ack-reserved-nonzero", d)
            if ack > st["sent"]:
                self._bad("block-upload-ackseq-beyond-sent(%d>%d)" % (ack, st["sent"]), d)
                self._abort(st["index"], st["sub"], ABORT_SEQNO)
                return
            if not 1 <= blk <= 127:
                self._bad("block-upload-ack-blksize-%d" % blk, d)
                self._abort(st["index"], st["sub"], ABORT_BLKSIZE)
                return
            st["acks"] = st.get("acks", [])
            st["acks"].append((ack, st["sent"]))
            if ack < st["sent"]:
                st["retx"] += 1
            st["pos"] += 7 * ack
            st["blksize"] = blk
            if st["pos"] >= len(st["data"]):
                n = (7 - len(st["data"]) % 7) % 7
                if not st["data"]:
                    n = 7
                crc = crc16_xmodem(st["data"]) if st["crc"] else 0
                st["phase"] = "end"
                self._send(bytes([0xC1 | n << 2, crc & 0xFF, crc >> 8, 0, 0, 0, 0, 0]))
            else:
                self._bu_send_subblock()
        elif cs == 1:
            if st["phase"] != "end":
                self._bad("block-upload-end-unexpected", d)
            if any(d[1:8]):
                self._bad("block-upload-end-reserved-nonzero", d)
            self.bu_stats = {"subblocks": st["subblocks"], "retx": st["retx"],
                             "acks": st.get("acks", [])}
            self.served.append(("bu", st["index"], st["sub"]))
            self.state = None

    bu_stats = None

    def _bu_send_subblock(self):
        st = self.state
        st["phase"] = "sub"
        st["subblocks"] += 1
        data = st["data"]
        pos = st["pos"]
        k = 0
        while k < st["blksize"]:
            chunk = data[pos:pos + 7]
            pos += 7
            k += 1
            last = pos >= len(data)
            self._send(bytes([(0x80 if last else 0) | k]) + chunk + bytes(7 - len(chunk)))
            if last:
                break
        st["sent"] = k
