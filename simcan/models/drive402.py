"""CiA 402 reference drive: power state machine with automatic transitions
(0, 1, 14), edge-triggered fault reset, extra status bits, control/statusword
over SDO and/or PDO, mode objects 0x6060/0x6061/0x6502.  Does not import canopen."""
from simcan.core import MS, US
from simcan.models.sdo_server import RefSdoServer

NRTSO, SOD, RTSO, SO, OE, QSA, FRA, FAULT = ("NOT READY TO SWITCH ON", "SWITCH ON DISABLED", "READY TO SWITCH ON", "SWITCHED ON",
                                             "OPERATION ENABLED", "QUICK STOP ACTIVE", "FAULT REACTION ACTIVE", "FAULT")
STATES = (NRTSO, SOD, RTSO, SO, OE, QSA, FRA, FAULT)
# state -> (mask, value) of the statusword, CiA 402
SW = {NRTSO: (0x4F, 0x00), SOD: (0x4F, 0x40), RTSO: (0x6F, 0x21), SO: (0x6F, 0x23), OE: (0x6F, 0x27), QSA: (0x6F, 0x07),
      FRA: (0x4F, 0x0F), FAULT: (0x4F, 0x08)}


def decode_statusword(sw):
    for st in STATES:
        m, v = SW[st]
        if sw & m == v:
            return st
    return "UNKNOWN"


class RefDrive402:
    def __init__(self, ctx, endpoint, node_id, transport="sdo", proc_delay=0):
        self.ctx = ctx
        self.ep = endpoint
        self.node_id = node_id
        self.srv = RefSdoServer(ctx, endpoint, 0x600 + node_id, 0x580 + node_id)
        self.srv.read_hook = self._read
        self.srv.write_hook = self._write
        endpoint.handler = self.handler
        self.transport = transport          # "sdo" | "pdo-event" | "pdo-periodic"
        self.state = SOD
        self.cw = 0
        self.cw_log = []                    # every controlword received (value, how)
        self.trace = []                     # states entered, in order
        self.extra = 0                      # extra (non-state) status bits currently reported
        self.extra_src = None               # callable() -> int
        self.proc_delay = proc_delay
        self.auto_delay = 5 * MS            # NRTSO -> SOD, FRA -> FAULT
        self.mode = 0
        self.mode_display = 0
        self.mode_delay = 2 * MS
        self.mode_writes = []
        self.supported = 0x3EF
        self.rpdo_cob = 0x200 + node_id
        self.tpdo_cob = 0x180 + node_id
        self.rpdo2_cob = 0x300 + node_id
        self.tpdo2_cob = 0x280 + node_id
        self.map_mode = 0                   # 1: 0x6060 in the RPDO and 0x6061 in the TPDO; 2: in a second RPDO / TPDO of their own
        self.period = 10 * MS
        self.tpdo_sent = 0
        self.gen = 0

    # ---- status --------------------------------------------------------
    def statusword(self):
        m, v = SW[self.state]
        return (self.extra & ~m & 0xFFFF) | v

    def enter(self, st):
        self.state = st
        self.trace.append(st)
        if self.extra_src is not None:
            self.extra = self.extra_src()
        self.ctx.log("drive", st, self.statusword())
        self.gen += 1
        if st in (NRTSO, FRA):
            g = self.gen
            self.ctx.after(self.auto_delay, lambda: self._auto(g))
        if self.transport == "pdo-event":
            self.send_tpdo()

    def _auto(self, g):
        if g != self.gen:
            return
        if self.state == NRTSO:
            self.enter(SOD)
        elif self.state == FRA:
            self.enter(FAULT)

    def fault(self):
        """drive-internal fault (transition 13)"""
        self.enter(FRA)

    def restart(self):
        """power cycle behind the master's back: the controlword register is cleared, the drive comes up through
        NOT READY TO SWITCH ON into SWITCH ON DISABLED on its own"""
        self.cw = 0
        self.enter(NRTSO)

    def send_tpdo(self):
        data = self.statusword().to_bytes(2, "little")
        if self.map_mode == 1:
            data += (self.mode_display & 0xFF).to_bytes(1, "little")
        self.tpdo_sent += 1
        self.ep.send(self.tpdo_cob, data)

    def send_tpdo2(self):
        self.ep.send(self.tpdo2_cob, (self.mode_display & 0xFF).to_bytes(1, "little"))

    def start_periodic(self):
        def tick():
            if self.transport == "pdo-periodic" and not self.stopped:
                self.send_tpdo()
                if self.map_mode == 2:
                    self.send_tpdo2()
                self.ctx.after(self.period, tick)
        self.stopped = False
        self.ctx.after(self.period, tick)

    stopped = False

    # ---- commands ------------------------------------------------------
    def command(self, cw, how):
        self.cw_log.append((cw, how))
        if self.proc_delay:
            self.ctx.after(self.proc_delay, lambda: self._apply(cw))
        else:
            self._apply(cw)

    def _apply(self, cw):
        old = self.cw
        self.cw = cw
        st = self.state
        edge = (cw & 0x80) and not (old & 0x80)
        if st == FAULT:
            if edge:
                self.enter(SOD)
            return
        if st in (NRTSO, FRA):
            return
        if cw & 0x80:
            return                              # fault reset bit set: no other command decoded
        if (cw & 0x02) == 0:                    # disable voltage
            if st in (RTSO, SO, OE, QSA):
                self.enter(SOD)
            return
        if (cw & 0x06) == 0x02:                 # quick stop
            if st in (RTSO, SO):
                self.enter(SOD)
            elif st == OE:
                self.enter(QSA)
            return
        if (cw & 0x07) == 0x06:                 # shutdown
            if st in (SOD, SO, OE):
                self.enter(RTSO)
            return
        if (cw & 0x0F) == 0x07:                 # switch on / disable operation
            if st == RTSO:
                self.enter(SO)
            elif st == OE:
                self.enter(SO)
            return
        if (cw & 0x0F) == 0x0F:                 # switch on + enable operation / enable operation
            if st == RTSO:
                self.enter(SO)
                self.enter(OE)
            elif st in (SO, QSA):
                self.enter(OE)
            return

    def set_mode(self, code, how):
        self.mode_writes.append((code, how))
        self.mode = code

        def show():
            self.mode_display = code
            if self.transport == "pdo-event" and self.map_mode == 1:
                self.send_tpdo()
            elif self.transport == "pdo-event" and self.map_mode == 2:
                self.send_tpdo2()
        self.ctx.after(self.mode_delay, show)

    def _mode_by_pdo(self, code):
        if code != self.mode:
            self.set_mode(code, "pdo")
        else:
            self.mode_writes.append((code, "pdo"))

    # ---- SDO / PDO access ------------------------------------------------
    def _read(self, index, sub):
        if (index, sub) == (0x6041, 0):
            return self.statusword().to_bytes(2, "little")
        if (index, sub) == (0x6061, 0):
            return (self.mode_display & 0xFF).to_bytes(1, "little")
        if (index, sub) == (0x6060, 0):
            return (self.mode & 0xFF).to_bytes(1, "little")
        if (index, sub) == (0x6502, 0):
            return self.supported.to_bytes(4, "little")
        if (index, sub) == (0x6040, 0):
            return self.cw.to_bytes(2, "little")
        return None

    def _write(self, index, sub, data):
        if (index, sub) == (0x6040, 0):
            if len(data) != 2:
                return 0x06070010
            self.command(int.from_bytes(data, "little"), "sdo")
            return None
        if (index, sub) == (0x6060, 0):
            if len(data) != 1:
                return 0x06070010
            self.set_mode(int.from_bytes(data, "little", signed=True), "sdo")
            return None
        if (index, sub) in ((0x6041, 0), (0x6061, 0), (0x6502, 0)):
            return 0x06010002
        return None

    def handler(self, can_id, data, rtr, ts):
        if rtr:
            return
        if can_id == self.srv.rx_cobid:
            self.srv.on_request(bytes(data))
        elif can_id == self.rpdo_cob and self.transport != "sdo":
            if len(data) >= 2:
                self.command(int.from_bytes(data[0:2], "little"), "pdo")
            if self.map_mode == 1 and len(data) >= 3:
                self._mode_by_pdo(int.from_bytes(data[2:3], "little", signed=True))
        elif can_id == self.rpdo2_cob and self.transport != "sdo" and self.map_mode == 2:
            if len(data) >= 1:
                self._mode_by_pdo(int.from_bytes(data[0:1], "little", signed=True))


# CiA 402 "modes of operation" (object 0x6060) and the bit of "supported drive modes" (0x6502) that advertises each:
# mode n (n >= 1) is advertised by bit n-1; 'no mode' (0) needs no bit.  Written from the standard, not taken from the library.
MODE_CODES = {
    "NO MODE": 0,
    "PROFILED POSITION": 1,
    "VELOCITY": 2,
    "PROFILED VELOCITY": 3,
    "PROFILED TORQUE": 4,
    "HOMING": 6,
    "INTERPOLATED POSITION": 7,
    "CYCLIC SYNCHRONOUS POSITION": 8,
    "CYCLIC SYNCHRONOUS VELOCITY": 9,
    "CYCLIC SYNCHRONOUS TORQUE": 10,
}
MODE_SUPPORT_BIT = {name: (0 if code == 0 else 1 << (code - 1)) for name, code in MODE_CODES.items()}
