"""Strict PDO-configurable device: a RefSdoServer store that enforces the CiA 301
PDO configuration rules and logs the ordered writes.  Does not import canopen."""

AB_UNSUPPORTED = 0x06010000
AB_NOT_MAPPABLE = 0x06040041
AB_PDO_LENGTH = 0x06040042
AB_NO_OBJECT = 0x06020000
AB_NO_SUB = 0x06090011
AB_LEN = 0x06070010


class PdoState:
    def __init__(self, kind, number):
        self.kind = kind            # "rpdo" | "tpdo"
        self.number = number        # 1..512
        base_c, base_m = (0x1400, 0x1600) if kind == "rpdo" else (0x1800, 0x1A00)
        self.com = base_c + number - 1
        self.map = base_m + number - 1
        self.cob_word = 0x80000000
        self.subs = {}              # other comm sub-entries present on the device: sub -> (width, value)
        self.entries = [0] * 8
        self.count = 0

    @property
    def valid(self):
        return not (self.cob_word >> 31)


class StrictPdoDevice:
    def __init__(self, server, mappable):
        """mappable: {(index, sub): bit length} of objects that may be mapped"""
        self.srv = server
        self.mappable = mappable
        self.pdos = {}              # com index -> PdoState ; map index -> PdoState
        self.log = []               # (index, sub, value) of every accepted write, in order
        self.refused = []           # (index, sub, value, code, reason)
        server.write_hook = self.on_write

    def add_pdo(self, st):
        self.pdos[st.com] = st
        self.pdos[st.map] = st
        self.sync(st)

    def sync(self, st):
        """publish the PDO's state in the server's store"""
        s = self.srv.store
        s[(st.com, 0)] = bytes([max([2] + list(st.subs))])
        s[(st.com, 1)] = st.cob_word.to_bytes(4, "little")
        for sub, (w, v) in st.subs.items():
            s[(st.com, sub)] = v.to_bytes(w, "little")
        s[(st.map, 0)] = bytes([st.count])
        for k in range(8):
            s[(st.map, k + 1)] = st.entries[k].to_bytes(4, "little")

    def _refuse(self, index, sub, value, code, reason):
        self.refused.append((index, sub, value, code, reason))
        return code

    def on_write(self, index, sub, data):
        st = self.pdos.get(index)
        value = int.from_bytes(data, "little")
        if st is None:
            if (index, 0) in self.srv.store or (index, sub) in self.srv.store:
                if (index, sub) not in self.srv.store:
                    return AB_NO_SUB
                self.log.append((index, sub, value))
                return None
            return AB_NO_OBJECT
        if index == st.com:
            if sub == 1:
                if len(data) != 4:
                    return self._refuse(index, sub, value, AB_LEN, "COB-ID must be 4 bytes")
                new_valid = not (value >> 31)
                if st.valid and new_valid and (value & 0x3FFFFFFF) != (st.cob_word & 0x3FFFFFFF):
                    return self._refuse(index, sub, value, AB_UNSUPPORTED, "COB-ID bits 0..29 changed while the PDO is valid and stays valid")
                if new_valid and st.count and sum(e & 0xFF for e in st.entries[:st.count]) > 64:
                    return self._refuse(index, sub, value, AB_PDO_LENGTH, "mapping exceeds 64 bits")
                st.cob_word = value
            elif sub in st.subs:
                w, _ = st.subs[sub]
                if len(data) != w:
                    return self._refuse(index, sub, value, AB_LEN, "wrong length for sub %d" % sub)
                if sub in (3, 6) and st.valid:
                    return self._refuse(index, sub, value, AB_UNSUPPORTED, "sub %d changed while the PDO is valid" % sub)
                st.subs[sub] = (w, value)
            else:
                return self._refuse(index, sub, value, AB_NO_SUB, "comm sub-entry %d does not exist" % sub)
        else:
            if sub == 0:
                if len(data) != 1:
                    return self._refuse(index, sub, value, AB_LEN, "count must be 1 byte")
                if st.valid:
                    return self._refuse(index, sub, value, AB_UNSUPPORTED, "mapping count written while the PDO is valid")
                if value > 8:
                    return self._refuse(index, sub, value, AB_PDO_LENGTH, "count > 8")
                total = 0
                for k in range(value):
                    e = st.entries[k]
                    key = (e >> 16, (e >> 8) & 0xFF)
                    if e == 0 or key not in self.mappable:
                        return self._refuse(index, sub, value, AB_NOT_MAPPABLE, "entry %d (0x%08X) is not a mappable object" % (k + 1, e))
                    total += e & 0xFF
                if total > 64:
                    return self._refuse(index, sub, value, AB_PDO_LENGTH, "mapping exceeds 64 bits")
                st.count = value
            elif 1 <= sub <= 8:
                if len(data) != 4:
                    return self._refuse(index, sub, value, AB_LEN, "mapping entry must be 4 bytes")
                if st.valid:
                    return self._refuse(index, sub, value, AB_UNSUPPORTED, "mapping entry written while the PDO is valid")
                if st.count != 0:
                    return self._refuse(index, sub, value, AB_UNSUPPORTED, "mapping entry written while the count is %d" % st.count)
                st.entries[sub - 1] = value
            else:
                return self._refuse(index, sub, value, AB_NO_SUB, "mapping sub-entry %d does not exist" % sub)
        self.log.append((index, sub, value))
        return None
