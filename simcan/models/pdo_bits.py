"""Reference PDO bit packer: the frame is a little-endian bit string (bit 0 of
byte 0 first); a field is bits[offset:offset+length]; signed fields are
sign-extended.  Independent of canopen."""
import struct


def extract(frame, offset, length, signed=False):
    v = (int.from_bytes(bytes(frame), "little") >> offset) & ((1 << length) - 1)
    if signed and v >> (length - 1):
        v -= 1 << length
    return v


def insert(frame, offset, length, value):
    n = len(frame)
    whole = int.from_bytes(bytes(frame), "little")
    mask = ((1 << length) - 1) << offset
    whole = (whole & ~mask) | ((value << offset) & mask)
    return whole.to_bytes(n, "little")


def float_bits(value, double):
    return int.from_bytes(struct.pack("<d" if double else "<f", value), "little")
