"""Self-test of the simulator's primitives: the same small threaded programs are
run (a) on the real `threading` / `queue` / `time` modules in real time and (b) on
the simulator's substitutes under many seeded schedules (policies, slow-task
stalls); their *logical* outcomes (who was woken, what timed out, what was
raised, final counters, ordering) must be identical.  Timing constants are far
apart (tens of milliseconds) so that the real run is not a race.

usage: ./check selftest-primitives [--seed N]
"""
import queue as real_queue
import threading as real_threading
import time as real_time

from simcan import prims, runner
from simcan.core import Ctx, Tape, MS, US

U = 0.02        # one time unit in seconds


def prog_queue(threading, queue, time):
    q = queue.Queue()
    out = []

    def consumer():
        try:
            out.append(("got", q.get(timeout=10 * U)))
            out.append(("got", q.get(timeout=10 * U)))
            q.get(timeout=2 * U)
            out.append("unexpected")
        except queue.Empty:
            out.append("empty-after-timeout")
        try:
            q.get_nowait()
        except queue.Empty:
            out.append("empty-nowait")
    t = threading.Thread(target=consumer)
    t.start()
    time.sleep(2 * U)
    q.put("a")
    q.put("b")
    t.join()
    out.append(("alive", t.is_alive()))
    return out


def prog_lock(threading, queue, time):
    lock = threading.Lock()
    counter = [0]
    out = []

    def worker():
        for _ in range(20):
            with lock:
                v = counter[0]
                time.sleep(0)           # a scheduling point inside the critical section
                counter[0] = v + 1
    ts = [threading.Thread(target=worker) for _ in range(4)]
    for t in ts:
        t.start()
    for t in ts:
        t.join()
    out.append(("count", counter[0]))
    lock.acquire()
    res = []

    def prober():
        res.append(lock.acquire(False))
        res.append(lock.acquire(True, 2 * U))
    p = threading.Thread(target=prober)
    p.start()
    p.join()
    out.append(("probe", tuple(res)))
    lock.release()
    out.append(("free", lock.acquire(False)))
    lock.release()
    try:
        lock.release()
        out.append("release-unlocked-accepted")
    except RuntimeError:
        out.append("release-unlocked-raises")
    return out


def prog_rlock(threading, queue, time):
    rl = threading.RLock()
    out = []
    rl.acquire()
    rl.acquire()
    got = []

    def other():
        got.append(rl.acquire(True, 2 * U))
    t = threading.Thread(target=other)
    t.start()
    t.join()
    out.append(("other-while-held-twice", got[0]))
    rl.release()
    t = threading.Thread(target=other)
    t.start()
    t.join()
    out.append(("other-while-held-once", got[1]))
    rl.release()
    got2 = []

    def other2():
        got2.append(rl.acquire(True, 2 * U))
        if got2[-1]:
            rl.release()
    t = threading.Thread(target=other2)
    t.start()
    t.join()
    out.append(("other-when-free", got2[0]))
    return out


def prog_condition(threading, queue, time):
    cond = threading.Condition()
    state = {"go": 0}
    woken = []
    out = []

    def waiter(i, timeout):
        with cond:
            r = cond.wait(timeout)
            woken.append((i, r))
    ts = [threading.Thread(target=waiter, args=(i, 10 * U)) for i in range(3)]
    for t in ts:
        t.start()
    time.sleep(3 * U)
    with cond:
        cond.notify(1)
    time.sleep(3 * U)
    out.append(("after-notify-1", len(woken), all(r for _, r in woken)))
    with cond:
        cond.notify_all()
    for t in ts:
        t.join()
    out.append(("after-notify-all", len(woken), all(r for _, r in woken)))
    # time-out: returns False and holds the lock again
    res = []

    def lone():
        with cond:
            res.append(cond.wait(2 * U))
    t = threading.Thread(target=lone)
    t.start()
    t.join()
    out.append(("timeout", res[0]))
    try:
        cond.wait(0.01)
        out.append("wait-without-lock-accepted")
    except RuntimeError:
        out.append("wait-without-lock-raises")
    try:
        cond.notify()
        out.append("notify-without-lock-accepted")
    except RuntimeError:
        out.append("notify-without-lock-raises")
    # wait_for with a predicate that becomes true after the second notification
    r2 = []

    def wf():
        with cond:
            r2.append(cond.wait_for(lambda: state["go"] >= 2, 20 * U))
            r2.append(cond.wait_for(lambda: state["go"] >= 99, 2 * U))
    t = threading.Thread(target=wf)
    t.start()
    for _ in range(2):
        time.sleep(2 * U)
        with cond:
            state["go"] += 1
            cond.notify_all()
    t.join()
    out.append(("wait_for", tuple(r2)))
    return out


def prog_handoff(threading, queue, time):
    """ping-pong over two queues: strict alternation and FIFO"""
    a, b = queue.Queue(), queue.Queue()
    out = []

    def ponger():
        for _ in range(10):
            v = a.get(timeout=50 * U)
            b.put(v + 1)
    t = threading.Thread(target=ponger)
    t.start()
    v = 0
    for _ in range(10):
        a.put(v)
        v = b.get(timeout=50 * U)
    t.join(50 * U)
    out.append(("final", v, t.is_alive()))
    return out


PROGRAMS = [prog_queue, prog_lock, prog_rlock, prog_condition, prog_handoff]


class _RealMods:
    threading = real_threading
    queue = real_queue
    time = real_time


def run_real(prog):
    return prog(real_threading, real_queue, real_time)


def run_sim(prog, seed):
    tape = Tape(prefix=(), seed=seed)
    ctx = Ctx(tape, threaded=True)
    prims.set_current(ctx)
    try:
        policy = (0, 4, 16)[ctx.choice(3, "policy")]
        ctx.enable_threads(policy)
        if ctx.choice(2, "stalls"):
            ctx.stall = lambda: (0, 0, 100 * US, 3 * MS)[ctx.choice(4, "stall")]
        box = []
        ctx.spawn("main", lambda: box.append(prog(prims.SimThreadingModule(), prims.SimQueueModule(), prims.SimTimeModule())))
        ctx.run_tasks()
        for t in ctx.tasks:
            if t.exc is not None:
                raise t.exc
        return box[0]
    finally:
        prims.set_current(None)


def main(seed=0, n=60):
    bad = 0
    for prog in PROGRAMS:
        real = run_real(prog)
        real2 = run_real(prog)
        if real != real2:
            print("%s: the real run is not stable (%r vs %r) - constants too tight for this machine" % (prog.__name__, real, real2))
            bad += 1
            continue
        diff = None
        for i in range(n):
            s = runner.run_seed_for(seed, "PRIMS", i)
            try:
                got = run_sim(prog, s)
            except BaseException as e:      # noqa
                got = "%s: %s" % (type(e).__name__, e)
            if got != real:
                diff = (s, got)
                break
        if diff:
            bad += 1
            print("%s: MISMATCH at run seed %d\n   stdlib : %r\n   simcan : %r" % (prog.__name__, diff[0], real, diff[1]))
        else:
            print("%s: %d seeded schedules give the stdlib outcome %r" % (prog.__name__, n, real))
    return 2 if bad else 0
