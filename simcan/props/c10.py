"""C10 - Frames reach exactly the handlers subscribed at that moment.

System: real Network, MessageListener, NodeScanner, RemoteNode/LocalNode
associate_network/remove_network.  Frames come from the simulated segment
through the listener path.  Mode I; the quantifier is over histories.
Reference: a multimap can_id -> ordered callbacks, a node table with the
observable effect each node's handlers must show, a scanner list.
"""
import can
import canopen

from simcan import world
from simcan.core import MS, SEC, US
from simcan.util import call, site

ID = "C10"
LEVEL = "exploration"
BUDGET = {"quick": 30, "thorough": 420}
RULE = ("one run = a history of up to 400 operations (subscribe, subscribe again, unsubscribe one/all, add/replace/remove local "
        "and remote nodes incl. extra SDO channels, receive data/error/remote/duplicate frames, send_message, send_periodic, "
        "scanner reset) checked against the reference multimap after every step; case key = (operation kind, id class, state "
        "class [number of subscribers on the id, live/dead node on the id]); non-trivial = every key (each is an executed operation)")
EXHAUSTIVE_CORE = "every 11-bit CAN id through the scanner and through send_message (one run each per block of 64 ids); 29-bit ids sampled"
ASSUMPTIONS = [
    "frames on ids that a library handler parses are generated well-formed (EMCY 8 bytes, heartbeat >= 1 byte, NMT command 2 bytes, SDO 8 bytes); "
    "a malformed protocol frame makes that handler raise, which MessageListener logs by design - recorded as an observation, not judged",
    "unsubscribe of something that is not subscribed is not generated; the general unsubscribe-all operation is not used on ids that carry a live node's handlers",
    "a separate operation unsubscribes everything on ONE service id of a live node: that node's handler then no longer receives on that id; removing or replacing "
    "such a node makes the library raise KeyError/ValueError half-way through (its own unsubscribe fails) - a removal that did not complete is not judged further "
    "(the node id is left alone for the rest of the run); a removal that completes without error is judged like any other",
]
COMPONENTS = {
    "real": ["canopen.Network (subscribe/unsubscribe/notify/send_message/send_periodic/__setitem__/__delitem__)", "canopen.network.MessageListener",
             "canopen.network.NodeScanner", "RemoteNode/LocalNode.associate_network/remove_network/add_sdo", "python-can Message"],
    "stub": ["CAN backend (SimBus)", "can.Notifier (deliveries are simulator events through Network.listeners)", "python-can cyclic send task (SimCyclicTask)"],
}
PROBES = ["subscribe-duplicate", "unsubscribe-all", "node-replaced", "node-removed", "frame-for-dead-node", "error-frame", "remote-frame",
          "duplicate-frame", "extended-id-sent", "extended-id-received", "extra-sdo-channel", "scanner-reset", "node-re-added",
          "unsubscribe-all-on-node-id", "removal-refused-after-application-unsubscribed-node-id", "subscriptions-changed-during-dispatch", "listeners-stopped-and-reused", "coarse-or-missing-receive-timestamps", "notify-entered-again-during-dispatch"]
# probes that mark an injected disturbance; the runner also counts them as fired faults in the evidence
FAULT_PROBES = {'duplicate-frame': 'duplicate-frame', 'error-frame': 'error-frame', 'frame-for-dead-node': 'frame-for-removed-node', 'remote-frame': 'remote-frame'}

USER_IDS = (0x123, 0x181, 0x081, 0x701, 0x000, 0x582, 0x7E4, 0x10000123)
NODE_IDS = (1, 2, 3, 5, 64, 127)
SERVICES = (0x700, 0x580, 0x180, 0x280, 0x380, 0x480, 0x80)
NMT_CMD = {1: 5, 2: 4, 80: 80, 96: 96, 128: 127, 129: 0, 130: 0}


def jobs(tier, seed):
    enum = [(1, blk) for blk in range(32)] + [(2, blk) for blk in range(32)]
    return enum, (150_000 if tier == "quick" else 3_000_000)


class NodeRec:
    def __init__(self, node, kind, nid, channels):
        self.node = node
        self.kind = kind
        self.nid = nid
        self.channels = channels    # [(rx, tx)] SDO channels of a remote node
        self.alive = True
        self.responses = 0          # responses a local node must have sent
        self.detached = set()       # service ids of this node that the application unsubscribed itself (unsubscribe-all)

    def fingerprint(self):
        n = self.node
        if self.kind == "remote":
            return (len(n.emcy.log), n.nmt.timestamp, n.nmt._state, tuple(len(c.responses.items) for c in n.sdo_channels))
        return (n.nmt._state, n.sdo._index, n.sdo._subindex)


class World:
    def __init__(self, ctx):
        self.ctx = ctx
        self.ch = world.make_channel(ctx, swarm=False)
        self.net, self.bus = world.make_network(ctx, self.ch, "net")
        self.subs = {}              # model: can_id -> [cb key]
        self.log = []               # invocation log of the instrumented callbacks
        self.cbs = {}
        for k in range(5):
            self.cbs[k] = self._make_cb(k)
        self.nodes = {}             # nid -> NodeRec (live)
        self.dead = []
        self.scanner_model = []
        self.lss_q = 0
        self.limbo = set()          # node ids whose removal failed half-way (see _failed_removal)
        self.armed = {}             # cb key -> (action, other cb key, can id): done once, from inside the callback, when it is next invoked for that id
        self.acted = None           # what an armed callback did during the current dispatch

    def _make_cb(self, k):
        def cb(can_id, data, timestamp):
            self.log.append((k, can_id, bytes(data), timestamp))
            act = self.armed.get(k)
            if act is not None and act[2] == can_id:
                # a callback that changes the subscriptions of its own CAN id while the frame is being dispatched
                # (a one-shot handler taking itself off, a handler swapping another one in or out)
                del self.armed[k]
                what, other, _ = act
                lst = self.subs.setdefault(can_id, [])
                if what == "unsub-self":
                    self.net.unsubscribe(can_id, self.cbs[k])
                    lst.remove(k)
                elif what == "unsub-other" and other in lst and other != k:
                    self.net.unsubscribe(can_id, self.cbs[other])
                    lst.remove(other)
                elif what == "sub-other":
                    self.net.subscribe(can_id, self.cbs[other])
                    if other not in lst:
                        lst.append(other)
                self.acted = (k, what, other)
        cb.__name__ = "cb%d" % k
        return cb


def _frame_for(ctx, w, can_id):
    """well-formed payload for ids that library handlers parse"""
    nid = can_id & 0x7F
    svc = can_id & 0x780
    if can_id > 0x7FF:
        return bytes(ctx.choice(256, "d") for _ in range(ctx.choice(9, "dl")))
    if can_id == 0:
        cs = (1, 2, 80, 96, 128, 129, 130, 3, 0, 255)[ctx.choice(10, "cs")]
        target = (0,) + NODE_IDS
        return bytes([cs, target[ctx.choice(len(target), "tgt")]])
    if svc == 0x80 and nid:
        return bytes([ctx.choice(256, "e0"), ctx.choice(256, "e1"), ctx.choice(256, "reg"), 1, 2, 3, 4, 5])
    if svc == 0x700 and nid:
        return bytes([(0, 4, 5, 127, 0x85)[ctx.choice(5, "hb")]])
    if svc == 0x600 and nid:
        return bytes([0x40, 0x00, 0x10, ctx.choice(4, "sub"), 0, 0, 0, 0])
    if svc == 0x580 and nid:
        return bytes([0x4F, 0, 0x10, 0, ctx.choice(256, "v"), 0, 0, 0])
    if can_id == 0x7E4:
        return bytes([0x4F, 0, 0, 0, 0, 0, 0, 0])
    return bytes(ctx.choice(256, "d") for _ in range(ctx.choice(9, "dl")))


def _pick_id(ctx, w):
    k = ctx.choice(6, "idsrc")
    if k <= 1:
        return USER_IDS[ctx.choice(len(USER_IDS), "uid")]
    if k <= 3:
        # a service id of a (live or dead or never seen) node
        nid = NODE_IDS[ctx.choice(len(NODE_IDS), "nid")]
        base = (0x700, 0x80, 0x580, 0x600, 0x180, 0x5C0, 0x640)[ctx.choice(7, "svc")]
        return base + nid
    if k == 4:
        return ctx.choice(0x800, "id11")
    return 0x800 + ctx.choice(0x1FFFF800, "id29")


def _expected_effects(w, can_id, data):
    """which live nodes must show an effect for this frame: {nid: effect}"""
    out = {}
    for nid, rec in w.nodes.items():
        if can_id in rec.detached:
            continue        # the application took the node's handler off this id itself
        if rec.kind == "remote":
            if can_id == 0x700 + nid:
                out[nid] = "heartbeat"
            elif can_id == 0x80 + nid:
                out[nid] = "emcy"
            elif can_id == 0 and len(data) >= 2:
                out[nid] = "nmt"
            else:
                for j, (rx, tx) in enumerate(rec.channels):
                    if can_id == tx:
                        out[nid] = ("sdo", j)
        else:
            if can_id == 0x600 + nid:
                out[nid] = "request"
            elif can_id == 0 and len(data) >= 2:
                out[nid] = "nmt"
    return out


def _receive(ctx, w, can_id, data, kind="data"):
    net, bus = w.net, w.bus
    before_live = {nid: rec.fingerprint() for nid, rec in w.nodes.items()}
    before_dead = [rec.fingerprint() for rec in w.dead]
    pre = list(w.subs.get(can_id, []))      # subscribed when the frame arrives
    w.acted = None
    mark = len(w.log)
    nbus = w.ch.n
    ext = can_id > 0x7FF
    copies = 2 if kind == "duplicate" else 1
    ts = []
    for _ in range(copies):
        t = w.ch.inject(bus, can_id, data, rtr=(kind == "remote"), ext=ext, delay=50 * US, error=(kind == "error"))
        ts.append(w.ch.stamp(t))
    lss_before = len(net.lss.responses.items)
    ctx.run_for(1 * MS)
    what = "%s frame %X#%s" % (kind, can_id, data.hex())
    dispatched = kind in ("data", "duplicate")
    # user callbacks: exactly those subscribed now, once each, in order, with id/data/timestamp
    got = w.log[mark:]
    exp = []
    if dispatched:
        for t in ts:
            for k in w.subs.get(can_id, []):
                exp.append((k, can_id, data, t))
    if w.acted is not None and dispatched and copies == 1:
        # the subscriptions of this id changed while the frame was being dispatched.  "Currently subscribed" is then only
        # clear for the callbacks that were subscribed when the frame arrived AND still are afterwards: each of them exactly
        # once, in subscription order, with the frame's arguments; one that was added or removed on the way: once or not at all
        post = list(w.subs.get(can_id, []))
        firm = [k for k in pre if k in post]
        got_firm = [g for g in got if g[0] in firm]
        exp_firm = [(k, can_id, data, ts[0]) for k in firm]
        stray = [g for g in got if g[0] not in pre and g[0] not in post]
        twice = [k for k in set(g[0] for g in got) if sum(1 for g in got if g[0] == k) > 1]
        ctx.probe("subscriptions-changed-during-dispatch")
        if got_firm != exp_firm or stray or twice:
            ctx.violation("C10/callback-delivery/subscriptions-changed-during-dispatch/%s" % w.acted[1],
                          "%s: callback cb%d did '%s' (cb%d) while the frame was dispatched; subscribed at arrival %r, afterwards %r; invoked %r - every callback "
                          "subscribed before and after must be invoked exactly once" % (what, w.acted[0], w.acted[1], w.acted[2], pre, post, [g[0] for g in got]))
        exp = got
    if got != exp:
        ctx.violation("C10/callback-delivery/%s" % ("not-dispatchable-frame" if not dispatched else
                                                   ("count" if len(got) != len(exp) else ("order" if sorted(got) == sorted(exp) else "arguments"))),
                      "%s: callbacks invoked %r, subscribed now %r (expected invocations %r)" % (
                          what, [(g[0], hex(g[1]), g[2].hex(), g[3]) for g in got], w.subs.get(can_id, []), [(e[0], e[3]) for e in exp]))
    # node handlers
    eff = _expected_effects(w, can_id, data) if dispatched else {}
    for nid, rec in w.nodes.items():
        now = rec.fingerprint()
        was = before_live[nid]
        e = eff.get(nid)
        n = rec.node
        if e is None:
            if now != was:
                ctx.violation("C10/handler-of-other-id-ran", "%s changed node %d (%s): %r -> %r" % (what, nid, rec.kind, was, now))
            continue
        if e == "heartbeat":
            if n.nmt.timestamp != ts[-1]:
                ctx.violation("C10/node-handler-missed-frame/heartbeat", "%s: node %d nmt.timestamp is %r, frame time %r" % (what, nid, n.nmt.timestamp, ts[-1]))
        elif e == "emcy":
            if len(n.emcy.log) != was[0] + copies:
                ctx.violation("C10/node-handler-missed-frame/emcy", "%s: node %d emcy.log grew by %d" % (what, nid, len(n.emcy.log) - was[0]))
        elif e == "nmt":
            cs, target = data[0], data[1]
            exp_state = was[2] if rec.kind == "remote" else was[0]
            if target in (nid, 0) and cs in NMT_CMD:
                exp_state = NMT_CMD[cs]
            if n.nmt._state != exp_state:
                ctx.violation("C10/node-handler-missed-frame/nmt", "%s: node %d NMT state %r, expected %r" % (what, nid, n.nmt._state, exp_state))
        elif e == "request":
            resp = [f for f in w.ch.frames(can_id=0x580 + nid, since=nbus) if f.src == "net"]
            if len(resp) != copies:
                ctx.violation("C10/node-handler-missed-frame/sdo-request", "%s: local node %d sent %d responses" % (what, nid, len(resp)))
        else:
            j = e[1]
            if len(n.sdo_channels[j].responses.items) != was[3][j] + copies:
                ctx.violation("C10/node-handler-missed-frame/sdo-response", "%s: node %d channel %d queue grew by %d" % (
                    what, nid, j, len(n.sdo_channels[j].responses.items) - was[3][j]))
    # removed / replaced nodes never see another frame
    for rec, was in zip(w.dead, before_dead):
        if rec.fingerprint() != was:
            ctx.violation("C10/removed-node-still-receives/%s" % rec.kind,
                          "%s reached a handler of the removed/replaced %s node %d: %r -> %r" % (what, rec.kind, rec.nid, was, rec.fingerprint()))
    if dispatched and any(rec.nid == (can_id & 0x7F) for rec in w.dead) and can_id <= 0x7FF:
        ctx.probe("frame-for-dead-node")
    # scanner
    if dispatched and can_id <= 0x7FF:
        nid = can_id & 0x7F
        if nid and (can_id & 0x780) in SERVICES and nid not in w.scanner_model:
            w.scanner_model.append(nid)
    if list(net.scanner.nodes) != w.scanner_model:
        ctx.violation("C10/scanner/%s" % ("extended-id" if ext else ("not-dispatchable-frame" if not dispatched else "list")),
                      "%s: scanner.nodes %r, expected %r" % (what, net.scanner.nodes, w.scanner_model))
    if kind == "error":
        ctx.probe("error-frame")
    elif kind == "remote":
        ctx.probe("remote-frame")
    elif kind == "duplicate":
        ctx.probe("duplicate-frame")
    if ext and dispatched:
        ctx.probe("extended-id-received")
    idclass = "ext" if ext else ("nmt" if can_id == 0 else ("svc" if (can_id & 0x780) in SERVICES + (0x600,) else "other"))
    ctx.cover(("rx", kind, idclass, min(len(w.subs.get(can_id, [])), 3), bool(eff), any(r.nid == (can_id & 0x7F) for r in w.dead)))


def _failed_removal(ctx, w, rec, exc, what):
    """The application had unsubscribed one of the node's own ids (unsubscribe-all) before the node was removed or
    replaced: the library's removal then fails with KeyError/ValueError half-way.  The statement says nothing about a
    removal that did not complete, so the node (and its id) is not judged any further - neither as live nor as removed.
    A removal that completes without an error is judged as usual: none of the old handlers may see another frame."""
    if not isinstance(exc, (KeyError, ValueError)):
        ctx.violation("C10/remove-node-raised/%s@%s" % (type(exc).__name__, site(exc)), "%s raised %r" % (what, exc))
    del w.nodes[rec.nid]
    w.limbo.add(rec.nid)
    ctx.probe("removal-refused-after-application-unsubscribed-node-id")


def _add_node(ctx, w, nid, kind):
    net = w.net
    if nid in w.limbo:
        return
    ctx.op("add-node", kind, nid, "replacing" if nid in w.nodes else "new")
    old = w.nodes.get(nid)
    if kind == "remote":
        node = canopen.RemoteNode(nid, canopen.ObjectDictionary())
        channels = [(0x600 + nid, 0x580 + nid)]
        if ctx.choice(3, "extra") == 0:
            node.add_sdo(0x640 + nid, 0x5C0 + nid)
            channels.append((0x640 + nid, 0x5C0 + nid))
            ctx.probe("extra-sdo-channel")
        _, exc = call(net.add_node, node)
        if ctx.choice(4, "extra-late") == 0 and exc is None:
            node.add_sdo(0x660 + (nid & 0x1F), 0x5E0 + (nid & 0x1F))
            channels.append((0x660 + (nid & 0x1F), 0x5E0 + (nid & 0x1F)))
            ctx.probe("extra-sdo-channel")
    else:
        node = canopen.LocalNode(nid, canopen.ObjectDictionary())
        channels = []
        _, exc = call(net.add_node, node)
    if exc is not None and old is not None and old.detached:
        return _failed_removal(ctx, w, old, exc, "replacing %s node %d" % (old.kind, nid))
    if exc is not None:
        ctx.violation("C10/add-node-raised/%s@%s" % (type(exc).__name__, site(exc)), "adding %s node %d raised %r" % (kind, nid, exc))
    if old is not None:
        old.alive = False
        w.dead.append(old)
        ctx.probe("node-replaced")
    w.nodes[nid] = NodeRec(node, kind, nid, channels)
    ctx.cover(("add", kind, old is not None and old.kind, len(channels)))


def _remove_node(ctx, w, nid):
    rec = w.nodes[nid]
    ctx.op("remove-node", rec.kind, nid)
    try:
        del w.net[nid]
    except Exception as e:      # noqa
        if rec.detached:
            return _failed_removal(ctx, w, rec, e, "removing %s node %d" % (rec.kind, nid))
        ctx.violation("C10/remove-node-raised/%s@%s" % (type(e).__name__, site(e)), "removing %s node %d raised %r" % (rec.kind, nid, e))
    del w.nodes[nid]
    rec.alive = False
    w.dead.append(rec)
    ctx.probe("node-removed")
    ctx.cover(("remove", rec.kind, len(rec.channels)))


def _send(ctx, w, periodic):
    net = w.net
    k = ctx.choice(3, "sidsrc")
    can_id = ctx.choice(0x800, "sid11") if k == 0 else (0x800 + ctx.choice(0x1FFFF800, "sid29") if k == 1 else (0x7FF, 0x800, 0x7FE, 0x1FFFFFFF, 0, 0x801)[ctx.choice(6, "sidb")])
    data = bytes(ctx.choice(256, "sd") for _ in range(ctx.choice(9, "sdl")))
    remote = ctx.choice(4, "rtr") == 0
    _check_sent(ctx, w, can_id, data, remote, periodic)


def _check_sent(ctx, w, can_id, data, remote, periodic):
    net = w.net
    mark = w.ch.n
    nsent = len(w.bus.sent)
    if periodic:
        task, exc = call(net.send_periodic, can_id, data, 0.01 + ctx.choice(5, "per") * 0.05, remote)
        if exc is None:
            ctx.run_for(1 * MS)
            task.stop()
        frames = [f for f in w.ch.frames(since=mark) if f.src == "net"]
    else:
        _, exc = call(net.send_message, can_id, data, remote)
        frames = [f for f in w.ch.frames(since=mark) if f.src == "net"]
    what = "%s(0x%X, %s, remote=%s)" % ("send_periodic" if periodic else "send_message", can_id, data.hex(), remote)
    if exc is not None:
        ctx.violation("C10/send-raised/%s@%s" % (type(exc).__name__, site(exc)), "%s raised %r" % (what, exc))
    if len(frames) != 1:
        ctx.violation("C10/outgoing-frame-count", "%s put %d frames on the bus" % (what, len(frames)))
    f = frames[0]
    if remote:
        data = b""      # a CAN remote frame has no data field (python-can drops it)
    if f.can_id != can_id or f.data != data or bool(f.rtr) != remote or bool(f.ext) != (can_id > 0x7FF):
        ctx.violation("C10/outgoing-frame/%s" % ("format" if bool(f.ext) != (can_id > 0x7FF) else "content"),
                      "%s went out as id=0x%X data=%s remote=%s extended=%s" % (what, f.can_id, f.data.hex(), f.rtr, f.ext))
    if not periodic:
        m = w.bus.sent[-1]
        if not isinstance(m, can.Message) or m.arbitration_id != can_id or bytes(m.data) != data or m.is_remote_frame != remote or m.is_extended_id != (can_id > 0x7FF):
            ctx.violation("C10/outgoing-message-object", "%s handed %r to the bus" % (what, m))
    if can_id > 0x7FF:
        ctx.probe("extended-id-sent")
    ctx.cover(("tx", periodic, can_id > 0x7FF, remote, len(data)))


def _loopback(ctx):
    """A Network whose send_message() (the documented integration point for custom interfaces) echoes every transmitted
    frame straight back into notify(): a LocalNode's SDO server answers from inside the dispatch of the request, so notify()
    is entered again on the same Network while the callbacks of the request's CAN id are still being invoked."""
    nid = 1 + ctx.choice(127, "node")
    log = []

    class LoopNet(canopen.Network):
        def send_message(self, can_id, data, remote=False):
            self.notify(can_id, bytearray(data), 7.0)

    net = LoopNet()
    od = canopen.ObjectDictionary()
    v = canopen.objectdictionary.ODVariable("X", 0x2000, 0)
    v.data_type = canopen.objectdictionary.UNSIGNED16
    v.default = 0x1234
    od.add_object(v)
    req_id, rsp_id = 0x600 + nid, 0x580 + nid
    nreq_before, nreq_after, nrsp = ctx.choice(3, "nbefore"), 1 + ctx.choice(3, "nafter"), 1 + ctx.choice(3, "nrsp")

    def mk(tag):
        def cb(can_id, data, ts):
            log.append((tag, can_id, bytes(data)))
        return cb
    order_req = []
    for k in range(nreq_before):
        net.subscribe(req_id, mk("q%d" % k))
        order_req.append("q%d" % k)
    node = canopen.LocalNode(nid, od)
    net.add_node(node)          # the SDO server's handler sits between the application's callbacks
    for k in range(nreq_after):
        net.subscribe(req_id, mk("q%d" % (nreq_before + k)))
        order_req.append("q%d" % (nreq_before + k))
    order_rsp = []
    for k in range(nrsp):
        net.subscribe(rsp_id, mk("r%d" % k))
        order_rsp.append("r%d" % k)
    request = bytes([0x40, 0x00, 0x20, 0x00, 0, 0, 0, 0])
    try:
        net.notify(req_id, bytearray(request), 5.0)
    except Exception as e:      # noqa
        ctx.violation("C10/unexpected-exception/%s@%s" % (type(e).__name__, site(e)), "notify() raised %r" % (e,))
    got_req = [(t, i) for t, i, d in log if t.startswith("q")]
    got_rsp = [(t, i, d[0]) for t, i, d in log if t.startswith("r")]
    if got_req != [(t, req_id) for t in order_req] or [(t, i) for t, i, c in got_rsp] != [(t, rsp_id) for t in order_rsp] or any(c != 0x4B for t, i, c in got_rsp):
        ctx.violation("C10/callback-delivery/notify-entered-again-during-dispatch",
                      "request 0x%X dispatched to %r (the node's SDO server answers in between, the answer 0x%X is dispatched inside): callbacks invoked %r" % (
                          req_id, order_req, rsp_id, [(t, hex(i)) for t, i, d in log]))
    ctx.probe("notify-entered-again-during-dispatch")
    ctx.cover(("loopback", nreq_before, nreq_after, nrsp))


def scenario(ctx):
    mode = ctx.choice(3, "mode")
    blk = ctx.choice(32, "blk")
    if mode == 0 and ctx.choice(16, "loopback") == 1:
        return _loopback(ctx)
    w = World(ctx)
    net = w.net
    if mode == 1:
        # every 11-bit id of this block through listener/scanner (and a 29-bit twin)
        for can_id in range(blk * 64, blk * 64 + 64):
            _receive(ctx, w, can_id, _frame_for(ctx, w, can_id))
            if ctx.choice(4, "twin") == 0:
                _receive(ctx, w, can_id | (1 + ctx.choice(0x3FFFF, "hi")) << 11, b"\x01")
        return
    if mode == 2:
        for can_id in range(blk * 64, blk * 64 + 64):
            data = bytes(ctx.choice(256, "sd") for _ in range(ctx.choice(9, "sdl")))
            _check_sent(ctx, w, can_id, data, ctx.choice(4, "rtr") == 0, ctx.choice(4, "per") == 0)
        return
    # receive timestamps as the driver delivers them: exact, from a coarse clock, or always 0.0 (a driver without timestamps)
    w.ch.ts_quantum = (0, 0, 0, 1 * MS, -1)[ctx.choice(5, "tsq")]
    if w.ch.ts_quantum:
        ctx.probe("coarse-or-missing-receive-timestamps")
    nops = 1 + ctx.choice(400 if ctx.choice(4, "long") == 0 else 40, "nops")
    for i in range(nops):
        with ctx.span("op"):
            op = ctx.weighted(((10, "rx"), (5, "sub"), (3, "unsub"), (1, "unsub-all"), (3, "add"), (2, "del"), (2, "tx"), (1, "txp"),
                               (2, "rx-special"), (1, "scan-reset"), (1, "re-add"), (1, "unsub-all-node"), (2, "arm"), (1, "reconnect")), "op")
            if op == "rx":
                can_id = _pick_id(ctx, w)
                _receive(ctx, w, can_id, _frame_for(ctx, w, can_id))
            elif op == "rx-special":
                can_id = _pick_id(ctx, w)
                _receive(ctx, w, can_id, _frame_for(ctx, w, can_id), ("error", "remote", "duplicate")[ctx.choice(3, "special")])
            elif op == "sub":
                can_id = _pick_id(ctx, w) if ctx.choice(3, "anyid") == 0 else USER_IDS[ctx.choice(len(USER_IDS), "uid")]
                k = ctx.choice(5, "cb")
                lst = w.subs.setdefault(can_id, [])
                if k in lst:
                    ctx.probe("subscribe-duplicate")
                else:
                    lst.append(k)
                ctx.op("subscribe", hex(can_id), "cb%d" % k)
                net.subscribe(can_id, w.cbs[k])
                ctx.cover(("sub", len(lst)))
            elif op == "unsub":
                have = sorted((cid, k) for cid, ks in w.subs.items() for k in ks)
                if have:
                    cid, k = have[ctx.choice(len(have), "which")]
                    ctx.op("unsubscribe", hex(cid), "cb%d" % k)
                    net.unsubscribe(cid, w.cbs[k])
                    w.subs[cid].remove(k)
                    ctx.cover(("unsub", len(w.subs[cid])))
            elif op == "unsub-all":
                # only ids without a live node's handlers (and not the library's own 0x7E4 / 0)
                busy = {0, 0x7E4}
                for nid, rec in w.nodes.items():
                    busy |= {0x700 + nid, 0x80 + nid, 0x600 + nid} | {tx for rx, tx in rec.channels}
                cands = sorted(cid for cid, ks in w.subs.items() if ks and cid not in busy)
                if cands:
                    cid = cands[ctx.choice(len(cands), "which")]
                    ctx.op("unsubscribe-all", hex(cid))
                    net.unsubscribe(cid)
                    w.subs[cid] = []
                    ctx.probe("unsubscribe-all")
                    ctx.cover(("unsub-all",))
            elif op == "arm":
                # a frame during whose dispatch one of the callbacks changes the subscriptions of that id
                cands = sorted(cid for cid, ks in w.subs.items() if len(ks) >= 2)
                if cands:
                    cid = cands[ctx.choice(len(cands), "which")]
                    ks = w.subs[cid]
                    k = ks[ctx.choice(len(ks), "armcb")]
                    what_ = ("unsub-self", "unsub-other", "sub-other")[ctx.choice(3, "armwhat")]
                    other = ctx.choice(5, "armother")
                    w.armed = {k: (what_, other, cid)}
                    ctx.op("arm", "cb%d" % k, what_, "cb%d" % other, hex(cid))
                    _receive(ctx, w, cid, _frame_for(ctx, w, cid))
                    w.armed = {}
            elif op == "reconnect":
                # Network.disconnect() stops python-can's Notifier, which calls stop() on every listener; a later connect()
                # hands the SAME listener objects to a new Notifier.  Emulated at that contract (no real Notifier thread here):
                # the listeners are told to stop, afterwards frames are fed to them again and must be dispatched as before
                ctx.op("listeners stopped and used again (disconnect + connect)")
                for l in list(net.listeners):
                    _, exc = call(l.stop)
                    if exc is not None:
                        ctx.violation("C10/unexpected-exception/%s@%s" % (type(exc).__name__, site(exc)), "listener.stop() raised %r" % (exc,))
                ctx.probe("listeners-stopped-and-reused")
            elif op == "unsub-all-node":
                # the application unsubscribes everything on one of a live node's own service ids
                if w.nodes:
                    ids = sorted(w.nodes)
                    rec = w.nodes[ids[ctx.choice(len(ids), "which")]]
                    own = [0x600 + rec.nid] if rec.kind == "local" else [0x700 + rec.nid, 0x80 + rec.nid] + [tx for rx, tx in rec.channels]
                    cid = own[ctx.choice(len(own), "ownid")]
                    if cid not in rec.detached and not any(cid in r.detached for r in w.nodes.values()):
                        ctx.op("unsubscribe-all", hex(cid), "(id of live %s node %d)" % (rec.kind, rec.nid))
                        _, exc = call(net.unsubscribe, cid)
                        if exc is not None:
                            ctx.violation("C10/unexpected-exception/%s@%s" % (type(exc).__name__, site(exc)), "unsubscribe(0x%X) raised %r" % (cid, exc))
                        w.subs[cid] = []
                        for r in w.nodes.values():      # (two remote nodes can share the id of an extra SDO channel)
                            if cid in ([0x600 + r.nid] if r.kind == "local" else [0x700 + r.nid, 0x80 + r.nid] + [tx for rx, tx in r.channels]):
                                r.detached.add(cid)
                        ctx.probe("unsubscribe-all-on-node-id")
                        ctx.cover(("unsub-all-node", rec.kind))
            elif op == "add":
                _add_node(ctx, w, NODE_IDS[ctx.choice(len(NODE_IDS), "nid")], ("remote", "local")[ctx.choice(2, "kind")])
            elif op == "re-add":
                # the same node object is stored again under its id: it stays the node of that id
                ids = sorted(n for n, r in w.nodes.items() if not r.detached)
                if ids:
                    nid = ids[ctx.choice(len(ids), "which")]
                    rec = w.nodes[nid]
                    ctx.op("re-add-same-node-object", rec.kind, nid)
                    if ctx.choice(2, "how"):
                        _, exc = call(w.net.add_node, rec.node)
                    else:
                        def do():
                            w.net[nid] = w.net[nid]
                        _, exc = call(do)
                    if exc is not None:
                        ctx.violation("C10/add-node-raised/%s@%s" % (type(exc).__name__, site(exc)), "re-adding %s node %d raised %r" % (rec.kind, nid, exc))
                    ctx.probe("node-re-added")
                    ctx.cover(("re-add", rec.kind))
            elif op == "del":
                if w.nodes:
                    ids = sorted(w.nodes)
                    _remove_node(ctx, w, ids[ctx.choice(len(ids), "which")])
            elif op == "tx":
                _send(ctx, w, False)
            elif op == "txp":
                _send(ctx, w, True)
            else:
                ctx.op("scanner.reset")
                net.scanner.reset()
                w.scanner_model = []
                ctx.probe("scanner-reset")
    ctx.log("ops", nops, len(w.log))
