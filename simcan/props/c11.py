"""C11 - NMT commands, states and heartbeats follow the CiA 301 state machine.

System: real NmtMaster objects (per RemoteNode and the network-wide one) on a
master Network, real NmtSlave objects inside LocalNodes on a slave Network,
one simulated segment; a raw endpoint injects heartbeat bytes.  Waits run
under virtual time.  Reference: the CiA 301 NMT table (models in this file).
"""
import canopen
from canopen import objectdictionary as odm
from canopen.nmt import NmtError

from simcan import world
from simcan.bus import PeerEndpoint
from simcan.core import MS, SEC, US
from simcan.util import call, site

ID = "C11"
LEVEL = "exploration"
BUDGET = {"quick": 35, "thorough": 420}
RULE = ("one run = a history of NMT steps (master command to own id / broadcast / other id, state assignment by name on master or "
        "slave, injected heartbeat byte, slave heartbeat, wait_for_heartbeat / wait_for_bootup with a planned arrival pattern) with "
        "master and slave views compared to the reference machine after every step; case key = (step kind, command or byte class, "
        "addressing, slave state before, outcome); every key is an executed step; distinct = distinct keys")
EXHAUSTIVE_CORE = ("all 27 000 command sequences of length 3 over 10 command specifiers (7 defined + 3 undefined) x 3 targets (own, broadcast, other), "
                   "all 256 heartbeat bytes, all state names of the tables plus arbitrary strings; length-4 sequences are sampled")
ASSUMPTIONS = [
    "reference table: cs 1 -> OPERATIONAL, 2 -> STOPPED, 128 -> PRE-OPERATIONAL, 129/130 -> INITIALISING, plus the library's 80 -> SLEEP, 96 -> STANDBY "
    "(the seven 'defined' specifiers of the statement); a command acts on a node iff it is addressed to the node's id or to 0",
    "a heartbeat byte is decoded after masking bit 7; 0 = boot-up = PRE-OPERATIONAL; values without a CiA 301 state must not be reported as a defined state",
    "wait window edges are treated as 'either'; the time-out bound is timeout + 0.1 s + one delivery latency in virtual time",
    "schedules in which two heartbeats are delivered before the waiter runs are not part of this property's quantifier (no Mode T here)",
]
COMPONENTS = {
    "real": ["canopen.nmt (NmtBase, NmtMaster, NmtSlave, tables)", "canopen.Network NMT master", "RemoteNode/LocalNode wiring", "canopen.network.PeriodicMessageTask"],
    "stub": ["CAN backend (SimBus)", "can.Notifier", "threading.Condition and time inside canopen.nmt (simulator primitives, virtual clock)", "python-can cyclic task (SimCyclicTask)"],
}
PROBES = ["node-guarding-running", "pdo-configuration-read-on-the-same-node", "cmd-own", "cmd-broadcast", "cmd-other", "undefined-cs", "invalid-name", "bootup-byte", "toggle-bit-set", "wait-hb-returned", "wait-hb-timeout",
          "wait-bootup-returned", "wait-bootup-timeout", "slave-heartbeat", "device-bootup-inline", "device-bootup-deferred", "waiters-served", "stale-heartbeat-before-wait"]
# probes that mark an injected disturbance; the runner also counts them as fired faults in the evidence
FAULT_PROBES = {'stale-heartbeat-before-wait': 'stale-heartbeat',
 'toggle-bit-set': 'guard-toggle-bit-in-state-byte',
 'undefined-cs': 'undefined-nmt-command',
 'wait-bootup-timeout': 'heartbeat-missing-or-late',
 'wait-hb-timeout': 'heartbeat-missing-or-late'}

CS = (1, 2, 80, 96, 128, 129, 130, 0, 3, 200)
TABLE = {1: 5, 2: 4, 80: 80, 96: 96, 128: 127, 129: 0, 130: 0}
NAMES = {0: "INITIALISING", 4: "STOPPED", 5: "OPERATIONAL", 80: "SLEEP", 96: "STANDBY", 127: "PRE-OPERATIONAL"}
CMD_NAMES = {"OPERATIONAL": 1, "STOPPED": 2, "SLEEP": 80, "STANDBY": 96, "PRE-OPERATIONAL": 128, "INITIALISING": 129, "RESET": 129, "RESET COMMUNICATION": 130}
BAD_NAMES = ("", "operational", "OPERATIONAL ", "STOP", "PREOPERATIONAL", "UNKNOWN", "0", "BOOT")


def jobs(tier, seed):
    enum = []
    for a in range(30):
        for b in range(30):
            for c in range(30):
                enum.append((1, a, b, c))
    enum.append((2, 0, 0, 0))
    enum.append((3, 0, 0, 0))
    return enum, (120_000 if tier == "quick" else 2_500_000)


class W:
    def __init__(self, ctx):
        self.ctx = ctx
        self.ch = world.make_channel(ctx, swarm=False)
        self.mnet, self.mbus = world.make_network(ctx, self.ch, "master")
        self.snet, self.sbus = world.make_network(ctx, self.ch, "slave")
        self.own = 1 + ctx.choice(127, "own")
        self.other = 1 + (self.own + ctx.choice(126, "other")) % 127
        if self.other == self.own:
            self.other = self.own % 127 + 1
        self.r = {}
        self.l = {}
        self.model = {}         # slave state numbers per node id
        self.mview = {}         # what the master must report per node id (number or None = unknown yet)
        for nid in (self.own, self.other):
            od = canopen.ObjectDictionary()
            od.add_object(world.var("Producer heartbeat time", 0x1017, 0, odm.UNSIGNED16, "rw", default=0))
            # an unused TPDO as devices ship it: COB-ID 0x80000000 (invalid, no id assigned), nothing mapped
            od.add_object(world.record("TPDO1 comm", 0x1800, [
                world.var("n", 0x1800, 0, odm.UNSIGNED8, "ro", default=2),
                world.var("COB-ID", 0x1800, 1, odm.UNSIGNED32, "rw", default=0x80000000),
                world.var("Type", 0x1800, 2, odm.UNSIGNED8, "rw", default=255)]))
            od.add_object(world.record("TPDO1 map", 0x1A00, [world.var("n", 0x1A00, 0, odm.UNSIGNED8, "rw", default=0)] +
                                       [world.var("e%d" % k, 0x1A00, k, odm.UNSIGNED32, "rw", default=0) for k in range(1, 9)]))
            self.r[nid] = canopen.RemoteNode(nid, canopen.ObjectDictionary())
            self.mnet.add_node(self.r[nid])
            self.l[nid] = canopen.LocalNode(nid, od)
            self.snet.add_node(self.l[nid])
            self.model[nid] = 0
            self.mview[nid] = 0
        self.raw = PeerEndpoint(self.ch, "raw")
        self.dev = None
        self.dev_delay = 0
        self.dev_inline = False


def _periodic(f):
    """a frame emitted by a cyclic task (node guarding request), not by the call under observation"""
    return isinstance(f.origin, tuple) and f.origin[0] == "periodic"


def state_name(n):
    return NAMES.get(n)


def _check(ctx, w, what):
    for nid in (w.own, w.other):
        s = w.l[nid].nmt.state
        exp = NAMES[w.model[nid]]
        if s != exp:
            ctx.violation("C11/slave-state", "%s: slave %d%s reports %r, the NMT machine says %r" % (what, nid, " (own)" if nid == w.own else " (other)", s, exp))
        m = w.r[nid].nmt.state
        mv = w.mview[nid]
        if mv is not None:
            if m != NAMES[mv]:
                ctx.violation("C11/master-view", "%s: master reports node %d as %r, expected %r" % (what, nid, m, NAMES[mv]))


def _command(ctx, w, csi, tgt):
    """master sends command CS[csi] to own id (0), broadcast (1) or the other node (2)"""
    cs = CS[csi]
    mark = w.ch.n
    if tgt == 0:
        master, tid = w.r[w.own].nmt, w.own
        ctx.probe("cmd-own")
    elif tgt == 1:
        master, tid = w.mnet.nmt, 0
        ctx.probe("cmd-broadcast")
    else:
        master, tid = w.r[w.other].nmt, w.other
        ctx.probe("cmd-other")
    if cs not in TABLE:
        ctx.probe("undefined-cs")
    before = dict(w.model)
    ctx.op("master command", cs, ("own", "broadcast", "other")[tgt], tid)
    _, exc = call(master.send_command, cs)
    what = "command %d to %s" % (cs, ("own id %d" % tid, "all nodes", "other id %d" % tid)[tgt])
    if exc is not None:
        ctx.violation("C11/nmt-call-raised/%s@%s" % (type(exc).__name__, site(exc)), "%s raised %r" % (what, exc))
    frames = [f for f in w.ch.frames(since=mark) if f.src == "master" and not _periodic(f)]
    if len(frames) != 1 or frames[0].can_id != 0 or frames[0].data != bytes([cs, tid]) or frames[0].rtr:
        ctx.violation("C11/command-frame", "%s put %r on the bus, expected exactly 000#%02x%02x" % (what, frames, cs, tid))
    ctx.run_for(2 * MS)
    if cs in TABLE:
        for nid in (w.own, w.other):
            if tid in (nid, 0):
                w.model[nid] = TABLE[cs]
                if tid == nid:
                    # the master object that sent the command knows the new state at once;
                    # after a broadcast by the network-wide master the per-node master
                    # objects learn it from the next heartbeat only
                    w.mview[nid] = TABLE[cs]
        if tgt == 1 and w.mnet.nmt.state != NAMES[TABLE[cs]]:
            ctx.violation("C11/master-view", "%s: the network-wide master reports %r" % (what, w.mnet.nmt.state))
    _check(ctx, w, what)
    ctx.cover(("cmd", cs, tgt, before[w.own], w.model[w.own]))


def _assign(ctx, w):
    side = ctx.choice(2, "side")
    nid = (w.own, w.other)[ctx.choice(2, "which")]
    valid = ctx.choice(3, "valid") != 0
    obj = w.r[nid].nmt if side == 0 else w.l[nid].nmt
    mark = w.ch.n
    if valid:
        names = sorted(CMD_NAMES)
        name = names[ctx.choice(len(names), "name")]
    else:
        name = BAD_NAMES[ctx.choice(len(BAD_NAMES), "bad")]
        ctx.probe("invalid-name")

    ctx.op(("master", "slave")[side] + " state assignment", nid, name)

    def do():
        obj.state = name
    _, exc = call(do)
    what = "%s node %d: nmt.state = %r" % (("master", "slave")[side], nid, name)
    frames = [f for f in w.ch.frames(since=mark) if f.src in ("master", "slave") and not _periodic(f)]
    if not valid:
        if not isinstance(exc, ValueError):
            ctx.violation("C11/invalid-name-accepted", "%s: outcome %r" % (what, exc))
        if frames:
            ctx.violation("C11/invalid-name-sent-frames", "%s was rejected but put %r on the bus" % (what, frames))
        _check(ctx, w, what)
        ctx.cover(("assign-invalid", side))
        return
    if exc is not None:
        ctx.violation("C11/nmt-call-raised/%s@%s" % (type(exc).__name__, site(exc)), "%s raised %r" % (what, exc))
    cs = CMD_NAMES[name]
    if side == 0:
        if [(f.can_id, f.data) for f in frames] != [(0, bytes([cs, nid]))]:
            ctx.violation("C11/command-frame", "%s put %r on the bus, expected 000#%02x%02x" % (what, frames, cs, nid))
        ctx.run_for(2 * MS)
        w.model[nid] = TABLE[cs]
        w.mview[nid] = TABLE[cs]
    else:
        # slave-side assignment: local state changes; entering INITIALISING
        # announces itself with the boot-up message
        w.model[nid] = TABLE[cs]
        boot = [f for f in frames if f.can_id == 0x700 + nid]
        if TABLE[cs] == 0:
            if not boot or boot[0].data != b"\x00":
                ctx.violation("C11/bootup-message", "%s: no boot-up frame 7xx#00 on the bus (%r)" % (what, frames))
            ctx.run_for(2 * MS)
            w.mview[nid] = 127
        else:
            ctx.run_for(2 * MS)
            # the master only learns it from the next heartbeat (if any was emitted)
            hb = [f for f in w.ch.frames(since=mark) if f.can_id == 0x700 + nid and f.src == "slave"]
            if hb:
                b = hb[-1].data[0] & 0x7F
                w.mview[nid] = 127 if b == 0 else (b if b in NAMES else None)
    _check(ctx, w, what)
    ctx.cover(("assign", side, name))


def _inject_hb(ctx, w, byte=None, nid=None):
    nid = nid if nid is not None else (w.own, w.other)[ctx.choice(2, "which")]
    if byte is None:
        byte = (0, 4, 5, 127, 0x80, 0x85, 0xFF, 80, 96, 1)[ctx.choice(10, "hb")] if ctx.choice(3, "rnd") else ctx.choice(256, "hbv")
    w.raw.send(0x700 + nid, bytes([byte]))
    ctx.run_for(1 * MS)
    low = byte & 0x7F
    what = "heartbeat byte 0x%02X from node %d" % (byte, nid)
    if byte & 0x80:
        ctx.probe("toggle-bit-set")
    got = w.r[nid].nmt.state
    if low == 0:
        ctx.probe("bootup-byte")
        w.mview[nid] = 127
    elif low in NAMES:
        w.mview[nid] = low
    else:
        w.mview[nid] = None
        if got in NAMES.values():
            ctx.violation("C11/undefined-heartbeat-value-reported-as-state", "%s is reported as %r" % (what, got))
    ts = w.r[nid].nmt.timestamp
    _check(ctx, w, what)
    ctx.cover(("hb", "boot" if low == 0 else ("defined" if low in NAMES else "undefined"), byte >> 7))


def _slave_heartbeat(ctx, w):
    nid = (w.own, w.other)[ctx.choice(2, "which")]
    ms = (0, 5, 20, 100)[ctx.choice(4, "ms")]
    sl = w.l[nid].nmt
    if ms:
        sl.start_heartbeat(ms)
        ctx.run_for((ms + 2) * MS)
        w.mview[nid] = 127 if w.model[nid] == 0 else w.model[nid]
        ctx.probe("slave-heartbeat")
        _check(ctx, w, "slave %d heartbeat every %d ms" % (nid, ms))
    sl.stop_heartbeat()
    ctx.run_for(2 * MS)
    ctx.cover(("slave-hb", ms, w.model[nid]))


def _wait(ctx, w):
    nid = w.own
    master = w.r[nid].nmt
    boot = ctx.choice(2, "bootwait") == 1
    timeout = (0.05, 0.2, 1.0, 10.0)[ctx.choice(4, "timeout")]
    to_ns = int(timeout * SEC)
    # something may have been received long before the wait starts
    if ctx.choice(2, "stale") == 1:
        _inject_hb(ctx, w, (5, 0, 127)[ctx.choice(3, "stalebyte")], nid)
        ctx.run_for(3 * MS)
        ctx.probe("stale-heartbeat-before-wait")
    pattern = ctx.choice(4, "pattern")   # 0 nothing, 1 matching inside, 2 only non-matching inside, 3 matching after the deadline
    t0 = ctx.now
    plan = []
    n = 0 if pattern == 0 else 1 + ctx.choice(3, "nmsg")
    for i in range(n):
        if pattern == 3:
            at = to_ns + 150 * MS + ctx.choice(200, "late") * MS
        else:
            at = 1 * MS + ctx.choice(max(1, (to_ns - 10 * MS) // MS), "at") * MS
            if at > to_ns - 5 * MS:
                at = max(1 * MS, to_ns - 5 * MS)
        if boot:
            byte = 0 if (pattern in (1, 3) and i == n - 1) else (5, 127, 4, 0x85)[ctx.choice(4, "nm")]
        else:
            byte = (5, 0, 127, 4)[ctx.choice(4, "mb")]
        src = (w.own if (boot or pattern != 2) else w.other)
        if not boot and pattern == 2:
            src = w.other       # for wait_for_heartbeat only a frame of another node is non-matching
        plan.append((at, byte, src))
    for at, byte, src in plan:
        ctx.at(t0 + at, (lambda b=byte, s=src: w.raw.send(0x700 + s, bytes([b]))))
    fn = master.wait_for_bootup if boot else master.wait_for_heartbeat
    ctx.op("wait_for_bootup" if boot else "wait_for_heartbeat", timeout, [(a // 1000, b, s) for a, b, s in plan])
    res, exc = call(fn, timeout)
    took = ctx.now - t0
    lat = 2 * MS
    inside = [(at, b, s) for at, b, s in plan if s == nid and at + lat < to_ns and (not boot or (b & 0x7F) == 0)]
    edge = [(at, b, s) for at, b, s in plan if s == nid and to_ns - lat <= at <= to_ns + 100 * MS + lat and (not boot or (b & 0x7F) == 0)]
    what = "%s(timeout=%s) with arrivals %s" % ("wait_for_bootup" if boot else "wait_for_heartbeat", timeout,
                                               [("%.3f" % (a / SEC), "0x%02X" % b, "own" if s == nid else "other") for a, b, s in plan])
    kind = "bootup" if boot else "hb"
    if exc is not None and not isinstance(exc, NmtError):
        ctx.violation("C11/wait-raised/%s@%s" % (type(exc).__name__, site(exc)), "%s raised %r" % (what, exc))
    if inside:
        if exc is not None:
            ctx.violation("C11/wait-missed-matching-message/%s" % kind, "%s raised %r after %.3f s although a matching message arrived inside the window" % (what, exc, took / SEC))
        if took > inside[0][0] + 110 * MS + lat and not boot:
            ctx.violation("C11/wait-returned-late/%s" % kind, "%s returned after %.3f s, first matching message at %.3f s" % (what, took / SEC, inside[0][0] / SEC))
        ctx.probe("wait-%s-returned" % kind)
    elif not edge:
        if exc is None:
            ctx.violation("C11/wait-returned-without-message/%s" % kind, "%s returned %r after %.3f s although no matching message arrived in the window" % (what, res, took / SEC))
        if took > to_ns + 100 * MS + 2 * lat + 5 * MS:
            ctx.violation("C11/wait-timeout-late/%s" % kind, "%s raised only after %.3f s" % (what, took / SEC))
        ctx.probe("wait-%s-timeout" % kind)
    # let every planned arrival happen before the next step
    last_at = max([at for at, b, s in plan] + [0])
    rest = t0 + last_at + 5 * MS - ctx.now
    ctx.run_for(max(rest, 0) + 5 * MS)
    # resync the master's view from what it last received
    last = [b for at, b, s in sorted(plan, key=lambda x: x[0]) if s == nid]
    if last:
        low = last[-1] & 0x7F
        w.mview[nid] = 127 if low == 0 else (low if low in NAMES else None)
    lo = [b for at, b, s in sorted(plan, key=lambda x: x[0]) if s == w.other]
    if lo:
        low = lo[-1] & 0x7F
        w.mview[w.other] = 127 if low == 0 else (low if low in NAMES else None)
    ctx.cover(("wait", kind, pattern, exc is None, bool(inside)))


def _device_reset(ctx, w):
    """A device that reboots on a reset command and announces itself with the boot-up
    message - at once (delivered inside the master's send call, as an inline-delivering
    back-end or a fast receive thread does) or a little later.  The boot-up message comes
    after the command, so the master must report PRE-OPERATIONAL afterwards."""
    if w.dev is None:
        w.dev = next(n for n in range(1, 128) if n not in (w.own, w.other))
        w.devnode = canopen.RemoteNode(w.dev, canopen.ObjectDictionary())
        w.mnet.add_node(w.devnode)
        ep = PeerEndpoint(w.ch, "device")
        ep.accept_inline = True

        def handler(can_id, data, rtr, ts):
            if can_id == 0 and len(data) == 2 and data[1] in (w.dev, 0) and data[0] in (129, 130):
                ep.send(0x700 + w.dev, b"\x00", delay=w.dev_delay, inline=w.dev_inline)
        ep.handler = handler
    w.dev_delay = (0, 0, 100 * US, 3 * MS)[ctx.choice(4, "devdelay")]
    w.dev_inline = w.dev_delay == 0 and ctx.choice(2, "devinline") == 1
    cs = (129, 130)[ctx.choice(2, "devcs")]
    by_name = ctx.choice(2, "devhow") == 1
    m = w.devnode.nmt
    old_inline = w.ch.inline_mode
    w.ch.inline_mode = w.dev_inline
    ctx.op("master resets device", cs, "by name" if by_name else "by command", "boot-up delay", w.dev_delay, "inline" if w.dev_inline else "deferred")

    def do():
        if by_name:
            m.state = "RESET" if cs == 129 else "RESET COMMUNICATION"
        else:
            m.send_command(cs)
    _, exc = call(do)
    w.ch.inline_mode = old_inline
    what = "reset command %d to a device that answers with its boot-up message %s" % (
        cs, "inside the master's send call" if w.dev_inline else "after %.1f ms" % (w.dev_delay / MS))
    if exc is not None:
        ctx.violation("C11/nmt-call-raised/%s@%s" % (type(exc).__name__, site(exc)), "%s raised %r" % (what, exc))
    ctx.run_for(6 * MS)
    if m.state != "PRE-OPERATIONAL":
        ctx.violation("C11/master-view", "%s: the master reports %r after the boot-up message, expected 'PRE-OPERATIONAL'" % (what, m.state))
    ctx.probe("device-bootup-inline" if w.dev_inline else "device-bootup-deferred")
    ctx.cover(("devreset", cs, by_name, w.dev_inline, w.dev_delay))
    _check(ctx, w, what)


def _mode_t_waiters(ctx):
    """Mode T, judged: 1..3 caller threads are inside wait_for_heartbeat() / wait_for_bootup()
    when ONE matching message arrives (nothing else arrives during the waits).  With a single
    delivery the outcome does not depend on the schedule: every caller must return."""
    ctx.enable_threads((0, 4)[ctx.choice(2, "policy")])
    if ctx.choice(2, "stalls"):
        ctx.stall = lambda: (0, 0, 300 * US, 3 * MS)[ctx.choice(4, "stall")]
        ctx.fault("slow-task")
    w = W(ctx)
    w.ch.ts_quantum = (0, 1 * MS, 100 * MS, -1)[ctx.choice(4, "tsq")]
    nid = w.own
    kind = ("hb", "bootup")[ctx.choice(2, "kind")]
    byte = 0 if kind == "bootup" else (5, 4, 127, 0)[ctx.choice(4, "byte")]
    nwait = 1 + ctx.choice(3, "nwait")
    results = [None] * nwait
    if ctx.choice(2, "earlier"):
        # an earlier heartbeat, long before anybody waits (same receive timestamp on a coarse driver clock)
        w.raw.send(0x700 + nid, bytes([byte if kind == "hb" else 5]))

    t_begin = ctx.now

    def producer():
        ctx.sleep(0.005)
        w.raw.send(0x700 + nid, bytes([byte]))

    def waiter(i):
        def body():
            ctx.sleep(0.001)
            m = w.r[nid].nmt
            results[i] = (call(m.wait_for_bootup, 0.2) if kind == "bootup" else call(m.wait_for_heartbeat, 0.2)) + (ctx.now,)
        return body
    ctx.spawn("producer", producer)
    for i in range(nwait):
        ctx.spawn("waiter%d" % i, waiter(i))
    ctx.run_tasks()
    for t in ctx.tasks:
        if t.exc is not None:
            raise t.exc
    for i, (res, exc, t_done) in enumerate(results):
        what = "Mode T: %d callers in wait_for_%s(0.2), one message %02X after 5 ms (receive timestamps %s)" % (
            nwait, "bootup" if kind == "bootup" else "heartbeat", byte, {0: "exact", -1: "always 0.0"}.get(w.ch.ts_quantum, "rounded to %d ms" % (w.ch.ts_quantum // MS)))
        if exc is not None:
            if isinstance(exc, NmtError):
                ctx.violation("C11/waiting-caller-not-served/%s/%s" % (kind, "one-waiter" if nwait == 1 else "several-waiters"), "%s: caller %d got %r" % (what, i, exc))
            ctx.violation("C11/nmt-call-raised/%s@%s" % (type(exc).__name__, site(exc)), "%s: caller %d: %r" % (what, i, exc))
        if kind == "hb" and res != NAMES[127 if byte == 0 else byte]:
            ctx.violation("C11/wait-wrong-state", "%s: caller %d got %r" % (what, i, res))
        # woken BY the message (sent 5 ms after the start), not by the caller's own time-out 200 ms later
        if t_done - t_begin > 100 * MS:
            ctx.violation("C11/waiting-caller-woken-late/%s" % ("one-waiter" if nwait == 1 else "several-waiters"),
                          "%s: caller %d came back after %.1f ms" % (what, i, (t_done - t_begin) / MS))
    ctx.probe("waiters-served", nwait)
    ctx.cover(("mode-T-waiters", kind, nwait, w.ch.ts_quantum))


def _clock_step_observation(ctx):
    """Observation only (rule 7): the wall clock is stepped while a caller sits in
    wait_for_bootup(), which takes its deadline from time.time() and recomputes the remaining
    time on every loop turn.  No statement speaks about clock steps: counted, not judged."""
    w = W(ctx)
    nid = w.own
    step = (10 * SEC, -10 * SEC, 3600 * SEC)[ctx.choice(3, "step")]
    t_step = (100 + ctx.choice(300, "tstep")) * MS
    t_hb = t_step + (20 + ctx.choice(200, "thb")) * MS
    t_boot = t_hb + (20 + ctx.choice(200, "tboot")) * MS          # < 0.85 s: inside the 1 s time-out

    def do_step():
        ctx.wall_offset += step
        ctx.fault("wall-clock-step")
    ctx.after(t_step, do_step)
    ctx.after(t_hb, lambda: w.raw.send(0x700 + nid, b"\x05"))
    ctx.after(t_boot, lambda: w.raw.send(0x700 + nid, b"\x00"))
    t0 = ctx.now
    _, exc = call(w.r[nid].nmt.wait_for_bootup, 1.0)
    took = (ctx.now - t0) / SEC
    ctx.run_for(300 * MS)
    if exc is not None and not isinstance(exc, NmtError):
        ctx.violation("C11/nmt-call-raised/%s@%s" % (type(exc).__name__, site(exc)), "wait_for_bootup() with a wall-clock step raised %r" % (exc,))
    if w.r[nid].nmt.state != "PRE-OPERATIONAL":
        ctx.violation("C11/master-view", "after heartbeat 05 and a boot-up message the master reports %r" % w.r[nid].nmt.state)
    how = "forward" if step > 0 else "back"
    if exc is not None:
        ctx.observe("wall clock stepped %s during wait_for_bootup(): NmtError although the boot-up message arrived inside the time-out (not judged)" % how)
    elif took > 1.2:
        ctx.observe("wall clock stepped %s during wait_for_bootup(): returned long after the time-out (not judged)" % how)
    else:
        ctx.observe("wall clock stepped %s during wait_for_bootup(): outcome as without the step" % how)
    ctx.cover(("clock-step", step > 0, exc is None))


def _mode_t_observation(ctx):
    """Mode T, observation only (rule 7): a waiter task in wait_for_bootup() /
    wait_for_heartbeat() and the receive task under the seeded scheduler, frames
    back to back.  wait_for_bootup() clears its flag at the top of every loop turn:
    a boot-up message that the receive thread handles between two turns (after an
    ordinary heartbeat woke the waiter) is lost and the call runs into its
    time-out.  The statement does not quantify over schedules, so this is counted,
    not judged; what IS judged: the master's view after all frames, and that a wait
    never returns without a matching message."""
    ctx.enable_threads((0, 4)[ctx.choice(2, "policy")])
    if ctx.choice(2, "stalls"):
        ctx.stall = lambda: (0, 0, 300 * US, 3 * MS)[ctx.choice(4, "stall")]
        ctx.fault("slow-task")
    w = W(ctx)
    nid = w.own
    kind = ("hb", "bootup")[ctx.choice(2, "kind")]
    frames = [(5, 4, 127, 0)[ctx.choice(4, "byte")] for _ in range(1 + ctx.choice(4, "nframes"))]
    gaps = [(0, 0, 0.0002, 0.002)[ctx.choice(4, "gap")] for _ in frames]
    result = []

    def producer():
        ctx.sleep(0.001)
        for b, g in zip(frames, gaps):
            if g:
                ctx.sleep(g)
            w.raw.send(0x700 + nid, bytes([b]))

    def waiter():
        m = w.r[nid].nmt
        result.append(call(m.wait_for_bootup, 0.05) if kind == "bootup" else call(m.wait_for_heartbeat, 0.05))
        ctx.sleep(0.03)         # every frame has been handled by the receive task when the run ends
    ctx.spawn("producer", producer)
    ctx.spawn("waiter", waiter)
    ctx.run_tasks()
    for t in ctx.tasks:
        if t.exc is not None:
            raise t.exc
    res, exc = result[0]
    matching = [b for b in frames if kind == "hb" or b == 0]
    if exc is not None and not isinstance(exc, NmtError):
        ctx.violation("C11/nmt-call-raised/%s@%s" % (type(exc).__name__, site(exc)), "Mode T: wait raised %r" % (exc,))
    if exc is None and not matching:
        ctx.violation("C11/wait-returned-without-message/%s" % kind, "Mode T: %s wait returned %r although only %r arrived" % (kind, res, frames))
    last = frames[-1]
    if w.r[nid].nmt.state != NAMES[127 if last == 0 else last]:
        ctx.violation("C11/master-view", "Mode T: after heartbeat bytes %r the master reports %r" % (frames, w.r[nid].nmt.state))
    if matching and exc is not None:
        ctx.observe("mode-T: wait_for_%s() ran into its time-out although a matching message was handled during the wait (not judged: schedule-dependent)" % kind)
    else:
        ctx.observe("mode-T: wait outcome as in the sequential model")
    ctx.cover(("mode-T-observation", kind, len(frames), exc is None))


def scenario(ctx):
    mode = ctx.choice(5, "mode")
    a = ctx.choice(30, "a")
    b = ctx.choice(30, "b")
    c = ctx.choice(30, "c")
    if mode == 4:
        k = ctx.choice(5, "tkind")
        if k in (1, 2):
            return _mode_t_waiters(ctx)
        if k == 3:
            return _clock_step_observation(ctx)
        return _mode_t_observation(ctx)
    w = W(ctx)
    if mode == 0:
        # receive timestamps as a coarse or absent driver clock delivers them
        w.ch.ts_quantum = (0, 0, 0, 1 * MS, 100 * MS, -1)[ctx.choice(6, "tsq")]
    if mode == 1:
        for x in (a, b, c):
            _command(ctx, w, x % 10, x // 10)
        return
    if mode in (0, 2) and ctx.choice(3, "pdo-read") == 1:
        # the PDO service of the same node is set up next to NMT: the node's PDO configuration (one unused TPDO) is read
        _, exc = call(w.l[w.own].tpdo.read)
        if exc is not None:
            ctx.violation("C11/nmt-call-raised/%s@%s" % (type(exc).__name__, site(exc)), "tpdo.read() of the local node raised %r" % (exc,))
        ctx.probe("pdo-configuration-read-on-the-same-node")
    if mode in (0, 2) and ctx.choice(3, "guarding") == 1:
        # node guarding is running for the node (remote requests on 0x700+id at a fixed rate): commands, heartbeats, boot-up
        # messages and waits are handled as without it - the toggle bit stays ignored, whatever it is
        _, exc = call(w.r[w.own].nmt.start_node_guarding, (0.005, 0.05, 1.0)[ctx.choice(3, "guardper")])
        if exc is not None:
            ctx.violation("C11/nmt-call-raised/%s@%s" % (type(exc).__name__, site(exc)), "start_node_guarding raised %r" % (exc,))
        ctx.probe("node-guarding-running")
    if mode == 2:
        for byte in range(256):
            _inject_hb(ctx, w, byte, w.own)
        return
    if mode == 3:
        for side in (0, 1):
            pass
        names = sorted(CMD_NAMES)
        for name in names:
            for nid in (w.own,):
                mark = w.ch.n
                w.r[nid].nmt.state = name
                ctx.run_for(2 * MS)
                w.model[nid] = TABLE[CMD_NAMES[name]]
                w.mview[nid] = TABLE[CMD_NAMES[name]]
                _check(ctx, w, "master assignment %r" % name)
        for bad in BAD_NAMES:
            mark = w.ch.n
            for obj in (w.r[w.own].nmt, w.l[w.own].nmt, w.mnet.nmt):
                def do():
                    obj.state = bad
                _, exc = call(do)
                if not isinstance(exc, ValueError) or w.ch.frames(since=mark):
                    ctx.violation("C11/invalid-name-accepted", "state = %r: outcome %r, frames %r" % (bad, exc, w.ch.frames(since=mark)))
        return
    n = 1 + ctx.choice(12, "nsteps")
    for i in range(n):
        with ctx.span("step"):
            op = ctx.weighted(((6, "cmd"), (3, "assign"), (3, "hb"), (1, "slavehb"), (3, "wait"), (2, "devreset")), "op")
            if op == "devreset":
                _device_reset(ctx, w)
            elif op == "cmd":
                _command(ctx, w, ctx.choice(10, "cs"), ctx.choice(3, "tgt"))
            elif op == "assign":
                _assign(ctx, w)
            elif op == "hb":
                _inject_hb(ctx, w)
            elif op == "slavehb":
                _slave_heartbeat(ctx, w)
            else:
                _wait(ctx, w)
