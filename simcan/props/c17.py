"""C17 - Periodic transmissions run exactly when and with what the API state says.

System: real SyncProducer, PdoMap.start/stop/update (LocalNode TPDO), NmtSlave
heartbeat producer incl. the 0x1017 write hook (reached locally and through a
real SDO download from the master), NmtMaster node guarding,
PeriodicMessageTask, Network.disconnect, python-can's send_periodic
bookkeeping.  The bus's cyclic tasks run on the virtual clock in three flavours
(modifiable / by reference like python-can's thread task, modifiable / copying
like socketcan BCM, fixed / copying like IXXAT); one configuration does not
cancel tasks in shutdown() so that disconnect()'s own stop loop is observable.
Observation point: the segment's live-task registry and the frames emitted.
"""
import canopen
from canopen import objectdictionary as odm

from simcan import world
from simcan.core import MS, SEC, US
from simcan.util import call, site

ID = "C17"
LEVEL = "exploration"
BUDGET = {"quick": 30, "thorough": 420}
RULE = ("one run = a call history of up to 60 calls over the four producers with virtual time passing in between; after every call the "
        "live cyclic tasks attributed to each producer are compared with the task model (<=1 task; id, payload, period, remote flag) and "
        "the frames emitted since the last call with the model payload; case key = (producer, call, running before, task flavour, "
        "time advance class); every key is an executed call")
EXHAUSTIVE_CORE = "every ordered pair of calls per producer (start/restart/stop/stop-again/update/period change ...) x 3 task flavours as the first two calls of a history"
ASSUMPTIONS = [
    "the producer's 'current id' is the one in force at the last start/update; the generator does not change a running map's COB-ID",
    "task flavours: python-can's thread task re-reads the Message object each cycle (by reference); hardware-backed tasks copy the frame at creation/modify_data",
    "python-can-thread flavour: a frame that python-can's sender thread emits within 5 ms of virtual time after the API call (it had passed its own 'stopped' check, or fetched the message, "
    "before the call) is python-can's and is not judged",
    "heartbeat model: running iff the last start had a non-zero time and no stop/0x1017=0 since; on the INITIALISING -> PRE-OPERATIONAL transition by slave-side assignment the stored 0x1017 value decides",
]
COMPONENTS = {
    "real": ["canopen.sync.SyncProducer", "canopen.pdo.PdoMap.start/stop/update, PdoVariable.set_data", "canopen.nmt NmtSlave heartbeat / NmtMaster node guarding",
             "canopen.network.PeriodicMessageTask, Network.send_periodic/disconnect", "python-can BusABC.send_periodic bookkeeping", "SDO client/server for the 0x1017 download",
             "fourth task flavour (one seeded run in sixteen, Mode T): python-can's ThreadBasedCyclicSendTask itself, its threads scheduled by the simulator"],
    "stub": ["CAN backend (SimBus)", "python-can's cyclic send task (SimCyclicTask on the virtual clock, three flavours)", "can.Notifier"],
}
PROBES = ["sync-restart", "pdo-restart", "pdo-update-in-place", "pdo-update-restart", "hb-1017-sdo", "hb-1017-local", "hb-state-by-command",
          "hb-state-by-assignment", "guard-restart", "disconnect", "disconnect-noncancelling-backend", "flavour-fixed", "flavour-modifiable-copy", "flavour-by-reference", "flavour-python-can-thread", "thread-task-frame-in-flight", "stop-refused-once", "frames-with-own-cob-id-received"]
# probes that mark an injected disturbance; the runner also counts them as fired faults in the evidence
FAULT_PROBES = {'disconnect-noncancelling-backend': 'backend-leaves-tasks-on-shutdown', 'stop-refused-once': 'driver-refuses-task-stop-once'}

FLAVOURS = ("by-reference", "modifiable-copy", "fixed-copy", "python-can-thread")
CALLS = {
    "sync": ("start", "start-same", "stop", "stop"),
    "pdo": ("start", "start-other-period", "stop", "set-var", "update", "set-var2", "start-same", "echo"),
    "hb": ("start", "start-other", "stop", "w1017-local", "w1017-zero-local", "w1017-sdo", "w1017-zero-sdo", "cmd", "assign"),
    "guard": ("start", "start-other", "stop", "stop"),
    "rpdo": ("start", "start-other-period", "stop", "set-var", "update", "start-same", "echo"),
    # node guarding of the same node id by a RemoteNode object on the OTHER network (a second master in the same process)
    "guard2": ("start", "start-other", "stop"),
}
PRODUCERS = ("sync", "pdo", "hb", "guard", "rpdo", "guard2")
BUS_OF = {"sync": "master", "guard": "master", "pdo": "slave", "hb": "slave", "rpdo": "master", "guard2": "slave"}
ALLCALLS = [(p, c) for p in PRODUCERS for c in sorted(set(CALLS[p]))]


def jobs(tier, seed):
    enum = []
    for f in range(3):
        for i in range(len(ALLCALLS)):
            for j in range(len(ALLCALLS)):
                if ALLCALLS[i][0] == ALLCALLS[j][0]:
                    enum.append((f, 1, i, j))
    return enum, (100_000 if tier == "quick" else 2_000_000)


class TaskModel:
    def __init__(self):
        self.running = False
        self.can_id = None
        self.payload = b""
        self.period = None
        self.remote = False
        self.changed_at = 0     # virtual time of the last API call on this producer


def build_slave_od():
    od = canopen.ObjectDictionary()
    od.add_object(world.var("Producer heartbeat time", 0x1017, 0, odm.UNSIGNED16, "rw", default=0))
    od.add_object(world.record("TPDO1 comm", 0x1800, [
        world.var("n", 0x1800, 0, odm.UNSIGNED8, "ro", default=2),
        world.var("COB-ID", 0x1800, 1, odm.UNSIGNED32, "rw", default=0x181),
        world.var("Type", 0x1800, 2, odm.UNSIGNED8, "rw", default=255)]))
    od.add_object(world.record("TPDO1 map", 0x1A00, [world.var("n", 0x1A00, 0, odm.UNSIGNED8, "rw", default=0)] +
                               [world.var("e%d" % k, 0x1A00, k, odm.UNSIGNED32, "rw", default=0) for k in range(1, 9)]))
    od.add_object(world.var("A", 0x2000, 0, odm.UNSIGNED16, "rw", default=0))
    od.add_object(world.var("B", 0x2001, 0, odm.INTEGER32, "rw", default=0))
    od.add_object(world.var("C", 0x2002, 0, odm.UNSIGNED8, "rw", default=0))
    od.add_object(world.var("D", 0x2003, 0, odm.BOOLEAN, "rw", default=0))
    return od


class W:
    def __init__(self, ctx, flavour):
        self.ctx = ctx
        self.flavour = flavour
        self.ch = world.make_channel(ctx, swarm=False)
        modifiable = flavour != "fixed-copy"
        cancel = ctx.choice(3, "cancel") != 0
        self.cancel = cancel
        self.mnet, self.mbus = world.make_network(ctx, self.ch, "master", modifiable_tasks=modifiable, cancel_on_shutdown=cancel)
        self.snet, self.sbus = world.make_network(ctx, self.ch, "slave", modifiable_tasks=modifiable, cancel_on_shutdown=cancel)
        for b in (self.mbus, self.sbus):
            b.tasks_by_reference = flavour == "by-reference"
            b.real_thread_tasks = flavour == "python-can-thread"    # python-can's ThreadBasedCyclicSendTask itself (Mode T)
        self.nid = 1 + ctx.choice(127, "node")
        sod = build_slave_od()
        # the heartbeat time comes from the dictionary file: as a DCF ParameterValue (beside the default 0), or not at all
        pv = (0, 0, 20, 500)[ctx.choice(4, "hb-parameter-value")]
        if pv:
            sod[0x1017].value = pv
        self.local = canopen.LocalNode(self.nid, sod)
        self.snet.add_node(self.local)
        rod = canopen.ObjectDictionary()
        rod.add_object(world.var("Producer heartbeat time", 0x1017, 0, odm.UNSIGNED16, "rw"))
        rod.add_object(world.record("RPDO1 comm", 0x1400, [
            world.var("n", 0x1400, 0, odm.UNSIGNED8, "ro", default=2),
            world.var("COB-ID", 0x1400, 1, odm.UNSIGNED32, "rw", default=0x201),
            world.var("Type", 0x1400, 2, odm.UNSIGNED8, "rw", default=255)]))
        rod.add_object(world.record("RPDO1 map", 0x1600, [world.var("n", 0x1600, 0, odm.UNSIGNED8, "rw", default=0)] +
                                    [world.var("e%d" % k, 0x1600, k, odm.UNSIGNED32, "rw", default=0) for k in range(1, 9)]))
        rod.add_object(world.var("A", 0x2000, 0, odm.UNSIGNED16, "rw", default=0))
        rod.add_object(world.var("B", 0x2001, 0, odm.INTEGER32, "rw", default=0))
        rod.add_object(world.var("C", 0x2002, 0, odm.UNSIGNED8, "rw", default=0))
        self.remote = canopen.RemoteNode(self.nid, rod)
        self.mnet.add_node(self.remote)
        self.remote2 = canopen.RemoteNode(self.nid, canopen.ObjectDictionary())
        self.remote2.associate_network(self.snet)       # (not in snet.nodes: that slot is the LocalNode's)
        rm = self.remote.rpdo[1]
        rm.cob_id = 0x200 + self.nid
        rm.enabled = ctx.choice(3, "rpdo-enabled") != 0
        rm.add_variable(0x2000)
        rm.add_variable(0x2001)
        rm.add_variable(0x2002)
        rm.subscribe()
        self.rmap = rm
        m = self.local.tpdo[1]
        m.cob_id = 0x180 + self.nid
        m.enabled = ctx.choice(3, "tpdo-enabled") != 0     # start() does not look at the flag
        m.add_variable(0x2000)
        m.add_variable(0x2003, 0, 1)    # a 1-bit field: everything behind it is off the byte boundary
        m.add_variable(0x2001)
        m.add_variable(0x2002)
        m.subscribe()
        self.map = m
        self.models = {p: TaskModel() for p in PRODUCERS}
        self.models["sync"].can_id = 0x80
        self.models["pdo"].can_id = 0x180 + self.nid
        self.models["hb"].can_id = 0x700 + self.nid
        self.models["guard"].can_id = 0x700 + self.nid
        self.models["guard"].remote = True
        self.models["guard2"].can_id = 0x700 + self.nid
        self.models["guard2"].remote = True
        self.models["rpdo"].can_id = 0x200 + self.nid
        self.hb_time = pv           # the 0x1017 value in force (DCF parameter value until something is written)
        self.state = 0              # slave NMT state number
        self.disconnected = False
        self.mark = self.ch.n

    def live(self):
        return list(self.ch.live_tasks) + [v for v in self.ch.thread_tasks if v.alive()]

    def tasks_of(self, prod):
        bus = BUS_OF[prod]
        m = self.models[prod]
        out = []
        for t in self.live():
            cid, data, period, rtr = t.describe()
            if t.bus.name == bus and cid == m.can_id and rtr == m.remote:
                out.append(t)
        return out


def _verify(ctx, w, what, flavour):
    # 1. registry vs model
    attributed = set()
    for p in PRODUCERS:
        m = w.models[p]
        ts = w.tasks_of(p)
        attributed |= set(id(t) for t in ts)
        if len(ts) > 1:
            ctx.violation("C17/more-than-one-task/%s" % p, "%s: %d periodic tasks are live for the %s producer: %r" % (
                what, len(ts), p, [(t.tid, t.describe()) for t in ts]))
        if m.running and not ts:
            ctx.violation("C17/task-missing/%s" % p, "%s: the %s producer should be transmitting %03X#%s every %s s but no task is live" % (what, p, m.can_id, m.payload.hex(), m.period))
        if not m.running and ts:
            ctx.violation("C17/task-leaked/%s" % p, "%s: the %s producer is stopped but task %r keeps transmitting" % (what, p, [(t.tid, t.describe()) for t in ts]))
        if m.running:
            cid, data, period, rtr = ts[0].describe()
            if data != m.payload:
                ctx.violation("C17/stale-payload/%s/%s" % (p, flavour), "%s: the %s task sends %s, the producer's current payload is %s" % (what, p, data.hex(), m.payload.hex()))
            if abs(period - m.period) > 1e-9:
                ctx.violation("C17/wrong-period/%s" % p, "%s: the %s task runs every %r s, current period is %r" % (what, p, period, m.period))
    stray = [t for t in w.live() if id(t) not in attributed]
    if stray:
        ctx.violation("C17/unattributed-task", "%s: live task(s) %r belong to no producer state" % (what, [(t.bus.name, t.tid, t.describe()) for t in stray]))


def _advance(ctx, w, what, flavour):
    k = ctx.choice(6, "adv")
    periods = [m.period for m in w.models.values() if m.running]
    p = min(periods) if periods else 0.01
    d = (0, 1 * MS, int(p * SEC) // 2, int(p * SEC) + MS, 3 * int(p * SEC) + MS, SEC)[k]
    mark = w.ch.n
    ctx.run_for(min(d, 3 * SEC))
    # frames emitted by periodic tasks in this interval carry the model payload
    for f in w.ch.frames(since=mark):
        if isinstance(f.origin, tuple) and f.origin[0] == "periodic":
            for pname in PRODUCERS:
                m = w.models[pname]
                bus = BUS_OF[pname]
                if f.src == bus and f.can_id == m.can_id and bool(f.rtr) == m.remote:
                    if flavour == "python-can-thread" and f.t <= m.changed_at + 5 * MS:
                        # python-can's sender thread had passed its own 'stopped' check (or had fetched the
                        # message) when the call was made: that one frame is python-can's, not canopen's
                        ctx.probe("thread-task-frame-in-flight")
                        continue
                    if not m.running:
                        ctx.violation("C17/frame-from-stopped-producer/%s" % pname, "%s: frame %r emitted although the %s producer is stopped" % (what, f, pname))
                    if f.data != m.payload:
                        ctx.violation("C17/stale-payload/%s/%s" % (pname, flavour), "%s: periodic frame %r, current payload %s" % (what, f, m.payload.hex()))
    return k


def _pdo_payload(w):
    return bytes(w.map.data)


def _stop(ctx, w, prod, fn, flavour, what):
    """A stop call.  In one run of eight per call the driver refuses to stop the cyclic task once (the task's own
    stop() raises can.CanOperationError, as a socket based broadcast manager can): that call fails and is not
    judged beyond 'nothing changed'; the application calls stop again, and after THAT call none may be running."""
    ts = w.tasks_of(prod) if flavour != "python-can-thread" else []
    if ts and ctx.choice(8, "stop-refused") == 1:
        for t in ts:
            t.fail_next_stop = True
        _, exc = call(fn)
        for t in ts:
            t.fail_next_stop = False
        ctx.probe("stop-refused-once")
        import can
        if exc is not None and not isinstance(exc, can.CanError):
            return exc
        ctx.run_for(0)
        if exc is not None:
            # the refused call changed nothing: the task is still the producer's one and only
            _verify(ctx, w, "after %s was refused by the driver (%s tasks)" % (what, flavour), flavour)
    _, exc = call(fn)
    return exc


def _do(ctx, w, prod, callname, flavour):
    m = w.models[prod]
    before = m.running
    what = "%s.%s" % (prod, callname)
    ctx.op(what, "running" if before else "stopped", flavour)
    exc = None
    if prod == "sync":
        s = w.mnet.sync
        if callname == "start":
            per = (0.001, 0.01, 0.1, 1.0, 10.0)[ctx.choice(5, "per")]
            _, exc = call(s.start, per)
            if before:
                ctx.probe("sync-restart")
            m.running, m.period, m.payload = True, per, b""
        elif callname == "start-same":
            if m.period is None:
                _, exc = call(s.start)
                if not isinstance(exc, ValueError):
                    ctx.violation("C17/start-without-period-accepted", "sync.start() without a period: %r" % (exc,))
                exc = None
            else:
                _, exc = call(s.start)
                if before:
                    ctx.probe("sync-restart")
                m.running = True
        else:
            exc = _stop(ctx, w, prod, s.stop, flavour, what)
            m.running = False
    elif prod in ("pdo", "rpdo"):
        mp = w.map if prod == "pdo" else w.rmap
        if callname in ("start", "start-other-period"):
            per = (0.001, 0.01, 0.05, 0.5, 10.0)[ctx.choice(5, "per")]
            _, exc = call(mp.start, per)
            if before:
                ctx.probe("pdo-restart")
            m.running, m.period, m.payload = True, per, bytes(mp.data)
        elif callname == "start-same":
            # restart without an argument: the period given at the last start() stays in force
            if m.period is None:
                _, exc = call(mp.start)
                if not isinstance(exc, ValueError):
                    ctx.violation("C17/start-without-period-accepted", "%s.start() without a period: %r" % (prod, exc))
                exc = None
            else:
                _, exc = call(mp.start)
                if before:
                    ctx.probe("pdo-restart")
                m.running, m.payload = True, bytes(mp.data)
        elif callname == "echo":
            # two frames with the map's own COB-ID arrive from the other side (an echo of its frames, a second producer): reception
            # next to the transmission, which changes nothing about what the producer sends
            # (only while the producer is transmitting: a map that is not transmitting measures the spacing of received frames
            # into its `period` attribute by design, which a later start() without argument would then use)
            src = w.sbus if prod == "rpdo" else w.mbus
            for gap in ((0, 7 * MS) if before else ()):
                ctx.run_for(gap)
                w.ch.transmit(src, m.can_id, bytes([0xEE] * max(1, len(mp.data))), origin="inject")
            ctx.run_for(1 * MS)
            ctx.probe("frames-with-own-cob-id-received")
        elif callname == "stop":
            exc = _stop(ctx, w, prod, mp.stop, flavour, what)
            m.running = False
        elif callname in ("set-var", "set-var2"):
            which = ctx.choice(len(mp.map), "var")
            val = ctx.choice(250, "val") + 1
            if mp.map[which].od.data_type == odm.BOOLEAN:
                val = not mp.map[which].raw

            def do():
                mp[which].raw = val
            _, exc = call(do)
            m.payload = bytes(mp.data)
            if before:
                ctx.probe("pdo-update-in-place" if flavour != "fixed-copy" else "pdo-update-restart")
        else:
            _, exc = call(mp.update)
            m.payload = bytes(mp.data)
    elif prod == "hb":
        sl = w.local.nmt
        if callname in ("start", "start-other"):
            ms = (1, 10, 100, 1000, 65535)[ctx.choice(5, "ms")]
            _, exc = call(sl.start_heartbeat, ms)
            m.running, m.period, m.payload = True, ms / 1000.0, bytes([w.state])
        elif callname == "stop":
            exc = _stop(ctx, w, prod, sl.stop_heartbeat, flavour, what)
            m.running = False
        elif callname in ("w1017-local", "w1017-zero-local", "w1017-sdo", "w1017-zero-sdo"):
            ms = 0 if "zero" in callname else (1, 10, 100, 1000, 65535)[ctx.choice(5, "ms")]
            if callname.endswith("sdo"):
                def do():
                    w.remote.sdo[0x1017].raw = ms
                ctx.probe("hb-1017-sdo")
            else:
                def do():
                    w.local.sdo[0x1017].raw = ms
                ctx.probe("hb-1017-local")
            _, exc = call(do)
            w.hb_time = ms
            if ms == 0:
                m.running = False
            else:
                m.running, m.period, m.payload = True, ms / 1000.0, bytes([w.state])
        elif callname == "cmd":
            cs = (1, 2, 128, 129, 130)[ctx.choice(5, "cs")]
            tgt = ctx.choice(2, "bcast")
            master = w.mnet.nmt if tgt else w.remote.nmt
            _, exc = call(master.send_command, cs)
            ctx.run_for(2 * MS)
            w.state = {1: 5, 2: 4, 128: 127, 129: 0, 130: 0}[cs]
            m.payload = bytes([w.state])
            ctx.probe("hb-state-by-command")
        else:
            name = ("OPERATIONAL", "STOPPED", "PRE-OPERATIONAL", "INITIALISING")[ctx.choice(4, "name")]
            new = {"OPERATIONAL": 5, "STOPPED": 4, "PRE-OPERATIONAL": 127, "INITIALISING": 0}[name]

            def do():
                w.local.nmt.state = name
            _, exc = call(do)
            old = w.state
            w.state = new
            if old == 0 and new == 127:
                # heartbeat service starts on this transition with the stored time
                if w.hb_time > 0:
                    m.running, m.period = True, w.hb_time / 1000.0
                else:
                    m.running = False
            m.payload = bytes([w.state])
            ctx.probe("hb-state-by-assignment")
    else:
        g = w.remote.nmt if prod == "guard" else w.remote2.nmt
        if callname in ("start", "start-other"):
            per = (0.01, 0.1, 1.0, 5.0)[ctx.choice(4, "per")]
            _, exc = call(g.start_node_guarding, per)
            if before:
                ctx.probe("guard-restart")
            m.running, m.period, m.payload = True, per, b""
        else:
            exc = _stop(ctx, w, prod, g.stop_node_guarding, flavour, what)
            m.running = False
    if exc is not None:
        ctx.violation("C17/call-raised/%s@%s" % (type(exc).__name__, site(exc)), "%s raised %r" % (what, exc))
    m.changed_at = ctx.now
    ctx.run_for(0)
    _verify(ctx, w, "after %s (%s tasks)" % (what, flavour), flavour)
    adv = _advance(ctx, w, "after %s (%s tasks)" % (what, flavour), flavour)
    _verify(ctx, w, "some time after %s (%s tasks)" % (what, flavour), flavour)
    ctx.cover((prod, callname, before, flavour, adv))


def scenario(ctx):
    fl = ctx.choice(4, "flavour")
    mode = ctx.choice(2, "mode")
    i = ctx.choice(len(ALLCALLS), "i")
    j = ctx.choice(len(ALLCALLS), "j")
    if fl == 3 and ctx.choice(4, "thrshare") != 0:
        fl = ctx.choice(3, "flavour2")      # (real threads are slow: one seeded run in sixteen uses them)
    flavour = FLAVOURS[fl]
    ctx.probe("flavour-" + {"by-reference": "by-reference", "modifiable-copy": "modifiable-copy", "fixed-copy": "fixed",
                            "python-can-thread": "python-can-thread"}[flavour])
    if flavour == "python-can-thread":
        # python-can's own thread based cyclic sender runs as real code: its threads are tasks of the
        # seeded scheduler, the calls below are made by an application task
        ctx.enable_threads((0, 4)[ctx.choice(2, "policy")])
        if ctx.choice(3, "stalls") == 1:
            ctx.stall = lambda: (0, 0, 100 * US, 1 * MS)[ctx.choice(4, "stall")]
            ctx.fault("slow-task")
        ctx.spawn("app", lambda: _body(ctx, flavour, mode, i, j))
        ctx.run_tasks()
        for t in ctx.tasks:
            if t.exc is not None and not t.daemon_task:
                raise t.exc
        return
    _body(ctx, flavour, mode, i, j)


def _body(ctx, flavour, mode, i, j):
    w = W(ctx, flavour)
    if mode == 1:
        _do(ctx, w, ALLCALLS[i][0], ALLCALLS[i][1], flavour)
        _do(ctx, w, ALLCALLS[j][0], ALLCALLS[j][1], flavour)
    n = ctx.choice(60 if ctx.choice(4, "long") == 0 else 12, "ncalls")
    for _ in range(n):
        with ctx.span("call"):
            p, c = ALLCALLS[ctx.choice(len(ALLCALLS), "call")]
            _do(ctx, w, p, c, flavour)
    # disconnecting the network stops the PDO tasks of all its nodes
    which = ctx.choice(3, "disconnect")
    if which == 2:
        _, exc = call(w.mnet.disconnect)
        if exc is not None:
            ctx.violation("C17/call-raised/%s@%s" % (type(exc).__name__, site(exc)), "master network disconnect() raised %r" % (exc,))
        ctx.probe("disconnect")
        ts = w.tasks_of("rpdo")
        if ts:
            ctx.violation("C17/task-leaked/rpdo-after-disconnect", "disconnect() left the RPDO task %r of the remote node running (backend cancels tasks in shutdown: %s)" % (
                [(t.tid, t.describe()) for t in ts], w.cancel))
        ctx.cover(("disconnect-master", w.cancel, flavour))
    if which == 1:
        _, exc = call(w.snet.disconnect)
        if exc is not None:
            ctx.violation("C17/call-raised/%s@%s" % (type(exc).__name__, site(exc)), "slave network disconnect() raised %r" % (exc,))
        ctx.probe("disconnect")
        if not w.cancel:
            ctx.probe("disconnect-noncancelling-backend")
        ts = w.tasks_of("pdo")
        if ts:
            ctx.violation("C17/task-leaked/pdo-after-disconnect", "disconnect() left the PDO task %r running (backend cancels tasks in shutdown: %s)" % (
                [(t.tid, t.describe()) for t in ts], w.cancel))
        ctx.cover(("disconnect", w.cancel, flavour))
