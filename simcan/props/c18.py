"""C18 - LSS fast scan finds the one unconfigured device's identity, bit for bit.

System: real LssMaster (canopen.Network.lss) against RefLssSlave (CiA 305
model with request monitor), 0 or 1 slave on the simulated segment; the
master's 0.5 s time-outs and sleeps run on the virtual clock.
"""
import canopen
from canopen.lss import LssError

from simcan import world
from simcan.bus import PeerEndpoint
from simcan.core import MS, SEC, US
from simcan.models.lss import RefLssSlave, CONFIGURATION, WAITING
from simcan.util import call, site

ID = "C18"
LEVEL = "exploration"
BUDGET = {"quick": 30, "thorough": 420}
RULE = ("one run = a sequence of LSS master calls (fast scan; global / selective switch; inquire; configure node id / bit timing; "
        "activate; store) against a reference slave with an identity and, for configure/inquire/store, a reply disturbance (error "
        "code, wrong command specifier, silence); case key = (call, identity class, reply mode, outcome); every key is an executed call")
EXHAUSTIVE_CORE = ("fast scan for the 128 identities with a single bit set, the 128 with a single bit cleared, all-zero and all-one; "
                   "configure node id for every id 0..255; bit-timing index 0..255; every error code 1..255 for configure/store")
ASSUMPTIONS = [
    "RefLssSlave is my reading of CiA 305 (fast-scan position machine: BitCheck 128 resets, a match on the upper bits answers 0x4F, "
    "BitCheck 0 advances LSSPos to LSSNext and LSSNext < LSSSub enters configuration state)",
    "frame loss during a fast scan is not injected (any master then finds a wrong identity; the statement does not claim otherwise)",
]
COMPONENTS = {
    "real": ["canopen.lss.LssMaster (all public services)", "canopen.Network (subscription of 0x7E4, send_message)"],
    "stub": ["CAN backend (SimBus)", "can.Notifier", "time/queue inside canopen.lss (virtual clock, SimQueue)", "LSS slave (RefLssSlave reference model)"],
}
PROBES = ["scan-found", "scan-no-slave", "bit31-set", "inquire", "configure-ok", "configure-error", "wrong-cs", "silence", "late-reply", "selective", "store",
          "unsolicited-reply-before-scan", "second-scan-same-master", "slow-reply-inside-timeout"]
# probes that mark an injected disturbance; the runner also counts them as fired faults in the evidence
FAULT_PROBES = {'slow-reply-inside-timeout': 'lss-slow-reply-inside-timeout',
 'configure-error': 'lss-error-reply',
 'late-reply': 'lss-late-reply',
 'silence': 'lss-reply-lost',
 'unsolicited-reply-before-scan': 'lss-unsolicited-reply',
 'wrong-cs': 'lss-wrong-cs-reply'}


def jobs(tier, seed):
    enum = []
    for bit in range(128):
        enum.append((1, 0, bit))
        enum.append((1, 1, bit))
    enum += [(1, 2, 0), (1, 3, 0), (2, 0, 0)]
    for blk in range(8):
        enum.append((3, blk, 0))        # configure node id 32 ids per run
        enum.append((4, blk, 0))        # bit timing index
        enum.append((5, blk, 0))        # error codes
    return enum, (200_000 if tier == "quick" else 3_000_000)


def _identity(ctx, kind, bit):
    if kind == 0:
        v = 1 << bit
    elif kind == 1:
        v = ((1 << 128) - 1) ^ (1 << bit)
    elif kind == 2:
        v = 0
    elif kind == 3:
        v = (1 << 128) - 1
    else:
        v = 0
        for k in range(4):
            v |= ctx.choice(1 << 32, "idpart") << (32 * k)
    return [(v >> (32 * k)) & 0xFFFFFFFF for k in range(4)]


class W:
    def __init__(self, ctx, identity, present=True):
        self.ctx = ctx
        self.ch = world.make_channel(ctx, swarm=False)
        self.net, self.bus = world.make_network(ctx, self.ch, "master")
        # receive timestamps as the driver delivers them: exact (seconds since start-up, not Unix time), coarse, or always 0.0
        self.ch.ts_quantum = (0, 0, 0, 100 * MS, -1)[ctx.choice(5, "tsq")]
        self.lss = self.net.lss
        self.slave = None
        if present:
            ep = PeerEndpoint(self.ch, "slave")
            self.slave = RefLssSlave(ctx, ep, identity, resp_delay=(0, 100 * US, 5 * MS)[ctx.choice(3, "rdelay")])
        self.stray = []
        self.ch.monitors.append(self._mon)

    def _mon(self, fr):
        if fr.src == "master" and fr.can_id != 0x7E5:
            self.stray.append(fr)
        if fr.src == "master" and fr.can_id == 0x7E5 and (len(fr.data) != 8 or fr.rtr or fr.ext):
            self.stray.append(fr)


def _monitor(ctx, w, what):
    if w.stray:
        ctx.violation("C18/request-frame/not-8-bytes-on-0x7E5", "%s: master sent %r" % (what, w.stray[0]))
    if w.slave is not None and w.slave.illegal:
        reason, fr = w.slave.illegal[0]
        ctx.violation("C18/request-frame/%s" % reason, "%s: LSS request %s is not a legal CiA 305 frame: %s" % (what, fr, reason))


def _scan(ctx, w, identity, kind):
    if w.slave is not None and kind == 4 and ctx.choice(4, "slowprobe") == 1:
        # the device is busy once during the scan: one of its answers takes 60..440 ms instead of microseconds,
        # which is still inside the master's 0.5 s response time-out (a conformant slave may take that long)
        w.slave.slow_reply = [1 + ctx.choice(70, "slowat"), (60, 150, 300, 440)[ctx.choice(4, "slowby")] * MS]
    res, exc = call(w.lss.fast_scan)
    if w.slave is not None:
        w.slave.slow_reply = None
    what = "fast_scan() with %s" % ("no slave" if w.slave is None else "slave identity %s" % ["0x%08X" % x for x in identity])
    if exc is not None:
        ctx.violation("C18/fast-scan-raised/%s@%s" % (type(exc).__name__, site(exc)), "%s raised %r" % (what, exc))
    _monitor(ctx, w, what)
    if w.slave is None:
        if res != (False, None):
            ctx.violation("C18/fast-scan-without-slave", "%s returned %r" % (what, res))
        ctx.probe("scan-no-slave")
        ctx.cover(("scan", "no-slave"))
        return
    ok = isinstance(res, tuple) and len(res) == 2 and res[0] is True and list(res[1]) == identity
    if not ok:
        cls = "not-found" if not (isinstance(res, tuple) and res[0]) else "wrong-identity"
        ctx.violation("C18/fast-scan/%s" % cls, "%s returned %r" % (what, res if not (isinstance(res, tuple) and res[1]) else (res[0], ["0x%08X" % x for x in res[1]])))
    if w.slave.state != CONFIGURATION:
        ctx.violation("C18/fast-scan/slave-not-in-configuration-state", "%s succeeded but the slave is still in waiting state" % what)
    if any(x >> 31 for x in identity):
        ctx.probe("bit31-set")
    ctx.probe("scan-found")
    ctx.cover(("scan", kind, sum(bin(x).count("1") for x in identity) // 16))


def _service(ctx, w, identity, svc=None, forced_arg=None, forced_mode=None):
    """one inquire / configure / store call with an optional reply disturbance"""
    lss, sl = w.lss, w.slave
    svc = svc or ("inquire-node-id", "inquire-vendor", "inquire-product", "inquire-revision", "inquire-serial",
                  "configure-node-id", "configure-bit-timing", "store", "activate")[ctx.choice(9, "svc")]
    if forced_mode is not None:
        mode = forced_mode or None
    else:
        k = ctx.choice(5, "rmode")
        mode = None
        if k == 1:
            mode = ("error", 1 + ctx.choice(255, "err"), ctx.choice(2, "spec") and ctx.choice(256, "specv"))
        elif k == 2:
            mode = ("wrong-cs", (0x11, 0x13, 0x17, 0x5E, 0x5A, 0x44, 0x4F, 0x00)[ctx.choice(8, "wcs")])
        elif k == 3:
            mode = ("silent",)
        elif k == 4 and ctx.choice(2, "late") == 1:
            # the reply arrives after the master's time-out: the call fails like
            # silence, the stale reply must not be taken for the next answer
            mode = ("late", int(0.5 * SEC) + (5 + ctx.choice(200, "lateby")) * MS)
    if mode is not None and mode[0] == "error" and svc.startswith("inquire"):
        mode = None         # inquire replies carry no error code
    sl.reply_mode = mode
    t0 = ctx.now
    arg = None
    if svc == "inquire-node-id":
        res, exc = call(lss.inquire_node_id)
        expect, req_cs = sl.pending_node_id, 0x5E
    elif svc.startswith("inquire-"):
        i = ("vendor", "product", "revision", "serial").index(svc[8:])
        req_cs = 0x5A + i
        res, exc = call(lss.inquire_lss_address, req_cs)
        expect = identity[i]
    elif svc == "configure-node-id":
        arg = forced_arg if forced_arg is not None else ctx.choice(256, "nid")
        res, exc = call(lss.configure_node_id, arg)
        expect, req_cs = None, 0x11
    elif svc == "configure-bit-timing":
        arg = forced_arg if forced_arg is not None else ctx.choice(256, "bt")
        res, exc = call(lss.configure_bit_timing, arg)
        expect, req_cs = None, 0x13
    elif svc == "store":
        res, exc = call(lss.store_configuration)
        expect, req_cs = None, 0x17
    else:
        arg = ctx.choice(65536, "delay")
        res, exc = call(lss.activate_bit_timing, arg)
        ctx.run_for(8 * MS)
        sl.reply_mode = None
        what = "activate_bit_timing(%d)" % arg
        if exc is not None:
            ctx.violation("C18/service-raised/%s@%s" % (type(exc).__name__, site(exc)), "%s raised %r" % (what, exc))
        if sl.activated != arg:
            ctx.violation("C18/activate-bit-timing-field", "%s: the slave decoded switch delay %r" % (what, sl.activated))
        _monitor(ctx, w, what)
        ctx.cover(("activate",))
        return
    sl.reply_mode = None
    took = ctx.now - t0
    what = "%s(%s) with reply mode %r" % (svc, "" if arg is None else arg, mode)
    _monitor(ctx, w, what)
    last = sl.requests[-1]
    if svc == "configure-node-id" and (last[0] != 0x11 or last[1] != arg):
        ctx.violation("C18/request-field/configure-node-id", "%s: request %s" % (what, last.hex()))
    if svc == "configure-bit-timing" and (last[0] != 0x13 or last[1] != 0 or last[2] != arg):
        ctx.violation("C18/request-field/configure-bit-timing", "%s: request %s" % (what, last.hex()))
    # what must happen
    natural_err = svc == "configure-node-id" and not (1 <= arg <= 127 or arg == 0xFF)
    must_fail = natural_err or (mode is not None and (mode[0] in ("error", "silent", "late") or (mode[0] == "wrong-cs" and mode[1] != req_cs)))
    if must_fail:
        if not isinstance(exc, LssError):
            ctx.violation("C18/error-not-raised/%s" % (mode[0] if mode else "inadmissible-node-id"),
                          "%s: the call %s instead of raising LssError" % (what, "returned %r" % (res,) if exc is None else "raised %r" % (exc,)))
        if mode is not None and mode[0] == "silent" and took > int(0.5 * SEC) + 300 * MS:
            ctx.violation("C18/silence-timeout-late", "%s raised after %.3f s" % (what, took / SEC))
        ctx.probe({"error": "configure-error", "wrong-cs": "wrong-cs", "silent": "silence", "late": "late-reply"}.get(mode[0] if mode else "error"))
        if mode is not None and mode[0] == "late":
            # let the late reply arrive (it is then a stale frame in the master's queue)
            ctx.run_for(mode[1] - int(0.5 * SEC) + 10 * MS)
    else:
        if exc is not None:
            ctx.violation("C18/service-raised/%s@%s" % (type(exc).__name__, site(exc)), "%s raised %r" % (what, exc))
        if expect is not None and res != expect:
            ctx.violation("C18/inquire-value/%s" % svc, "%s returned %r, the slave holds %r" % (what, res, expect))
        ctx.probe("inquire" if svc.startswith("inquire") else ("store" if svc == "store" else "configure-ok"))
    ctx.cover((svc, mode[0] if mode else "ok", exc is None))


def scenario(ctx):
    mode = ctx.choice(6, "mode")
    a = ctx.choice(8, "a")
    b = ctx.choice(128, "b")
    if mode == 1:
        identity = _identity(ctx, a % 4, b)
        w = W(ctx, identity)
        _scan(ctx, w, identity, a % 4)
        # after the scan the slave is in configuration state: the services work
        for _ in range(ctx.choice(3, "after")):
            _service(ctx, w, identity)
        return
    if mode == 2:
        w = W(ctx, None, present=False)
        _scan(ctx, w, None, "none")
        return
    identity = _identity(ctx, 4, 0)
    w = W(ctx, identity)
    if mode in (3, 4, 5):
        w.lss.send_switch_state_global(w.lss.CONFIGURATION_STATE)
        ctx.run_for(2 * MS)
        if w.slave.state != CONFIGURATION:
            ctx.violation("C18/switch-state-global", "slave not in configuration state; requests %r" % [r.hex() for r in w.slave.requests])
        for k in range(32):
            v = (a % 8) * 32 + k
            if mode == 3:
                _service(ctx, w, identity, "configure-node-id", v, None if False else ())
            elif mode == 4:
                _service(ctx, w, identity, "configure-bit-timing", v, ())
            else:
                if v == 0:
                    continue
                svc = ("configure-node-id", "configure-bit-timing", "store")[ctx.choice(3, "svc3")]
                _service(ctx, w, identity, svc, 5 if svc != "store" else None, ("error", v, 0 if ctx.choice(2, "spec0") == 0 else ctx.choice(256, "specv")))
        return
    # seeded history
    how = ctx.choice(3, "enter")
    if how == 0:
        if ctx.choice(3, "identify-first") == 0:
            # the slave answers 0x50 to "identify non-configured remote slave"; the master does not
            # collect that answer, it must not disturb the scan that follows
            _, exc = call(w.lss.send_identify_non_configured_remote_slave)
            ctx.run_for(10 * MS)
            ctx.probe("unsolicited-reply-before-scan")
        _scan(ctx, w, identity, 4)
    elif how == 1:
        res, exc = call(w.lss.send_switch_state_selective, *identity)
        what = "send_switch_state_selective(%s)" % ["0x%08X" % x for x in identity]
        _monitor(ctx, w, what)
        if exc is not None or res is not True or w.slave.state != CONFIGURATION:
            ctx.violation("C18/selective-switch-not-confirmed", "%s: outcome %r / %r, slave state %d" % (what, res, exc, w.slave.state))
        ctx.probe("selective")
        ctx.cover(("selective", "match"))
    else:
        w.lss.send_switch_state_global(w.lss.CONFIGURATION_STATE)
        ctx.run_for(2 * MS)
        _monitor(ctx, w, "send_switch_state_global(1)")
        if w.slave.state != CONFIGURATION:
            ctx.violation("C18/switch-state-global", "slave not in configuration state; requests %r" % [r.hex() for r in w.slave.requests])
    for _ in range(1 + ctx.choice(8, "nsvc")):
        with ctx.span("svc"):
            if ctx.choice(10, "sendfail") == 1:
                # the driver refuses ONE frame of a request (transmit buffer full): that call fails in whatever way - not judged;
                # the calls after it are judged as always
                w.bus.fail_next_send = True
                k = ctx.choice(3, "failsvc")
                if k == 2:
                    call(w.lss.inquire_lss_address, 0x5A)
                else:
                    call((w.lss.inquire_node_id, w.lss.store_configuration)[k])
                w.bus.fail_next_send = False
                ctx.run_for(600 * MS)
                w.slave.illegal.clear()
                ctx.fault("driver-refuses-one-frame")
            _service(ctx, w, identity)
    if ctx.choice(3, "leave") == 0:
        w.lss.send_switch_state_global(w.lss.WAITING_STATE)
        ctx.run_for(2 * MS)
        _monitor(ctx, w, "send_switch_state_global(0)")
        if w.slave.state != WAITING:
            ctx.violation("C18/switch-state-global", "slave not back in waiting state")
        # a selective switch with a different identity must not be confirmed
        wrong = list(identity)
        wrong[ctx.choice(4, "wpart")] ^= 1 << ctx.choice(32, "wbit")
        res, exc = call(w.lss.send_switch_state_selective, *wrong)
        if res is True:
            ctx.violation("C18/selective-switch-confirmed-for-wrong-identity", "selective switch with %r confirmed" % (wrong,))
        ctx.cover(("selective", "mismatch", type(exc).__name__ if exc else None))
    if ctx.choice(3, "rescan") == 0:
        # the device is taken away and another unconfigured one (another identity) is connected:
        # the same master object runs the fast-scan procedure again
        w.lss.send_switch_state_global(w.lss.WAITING_STATE)
        ctx.run_for(600 * MS)       # (replies still on their way belong to the old device)
        identity2 = _identity(ctx, 4, 0)
        w.slave = RefLssSlave(ctx, w.slave.ep, identity2, resp_delay=w.slave.resp_delay)
        ctx.probe("second-scan-same-master")
        _scan(ctx, w, identity2, 4)
