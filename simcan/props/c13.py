"""C13 - SDO block upload returns exactly the server's data or fails visibly.

System: real BlockUploadStream (via SdoClient.open(block_transfer=True)) against
RefSdoServer's block upload (sequence numbers restart at 1 in every sub-block).
Faults are placed on the server->client segment stream and on the end frame.
"""
from canopen.sdo.exceptions import SdoError

from simcan import world
from simcan.bus import Transport
from simcan.core import MS, SEC, US
from simcan.models.sdo_server import crc16_xmodem
from simcan.util import call, site, need_bytes

ID = "C13"
LEVEL = "fault_enumeration"
BUDGET = {"quick": 40, "thorough": 480}
RULE = ("one run = one block upload of a value with at most one fault class (none / lost segment / bit-flipped "
        "segment / duplicated segment / wrong CRC / wrong end frame; thorough: several losses); case key = "
        "(length class, CRC mode, fault kind, position class, outcome); non-trivial = a transfer ran and, for "
        "fault cases, the fault fired; distinct = distinct keys")
EXHAUSTIVE_CORE = ("19 value lengths around the segment and sub-block boundaries (1..1779, incl. 888..890, 895..897) x "
                   "4 CRC modes (client requests x server supports) x {no fault, every lost / bit-flipped / "
                   "duplicated segment position among the first 20, 125..128 and the last 5, wrong CRC, wrong end "
                   "frame scs/ss/n}")
ASSUMPTIONS = [
    "RefSdoServer block upload follows CiA 301: after an acknowledge with ackseq < blksize it retransmits from the "
    "segment following ackseq and restarts the sequence numbers at 1",
    "CRC is in force only when both sides announce support (cc=1 and sc=1); otherwise the server sends crc=0",
    "bit flips and a wrong unused-byte count are only injected when a CRC is in force (no client can detect them otherwise)",
    "weaker reading enforced: after an injected fault the call may still succeed if the data is exactly the server's value",
]
COMPONENTS = {
    "real": ["canopen.sdo.client.BlockUploadStream", "SdoClient.open/read_response/send_request/abort", "canopen.Network", "io.BufferedReader"],
    "stub": ["CAN backend (SimBus) with fault-injecting transport", "can.Notifier", "time/queue in canopen.sdo.client", "SDO server (RefSdoServer)"],
}
PROBES = ["undisturbed-ok", "multi-subblock", "retransmit-requested", "repaired", "crc-in-force", "sdo-error-after-fault", "crc-is-zero", "read-in-pieces", "caller-stopped-reading-early"]

LENS = (1, 6, 7, 8, 14, 15, 20, 21, 22, 50, 100, 882, 888, 889, 890, 895, 896, 897, 1779)
CRCM = ((True, True), (True, False), (False, True), (False, False))     # (client requests, server supports)
POS = tuple(range(20)) + (125, 126, 127, 128, "last", "last-1", "last-2", "last-3", "mid")
FAULTS = ("none", "drop", "flip", "dup", "crc", "end-scs", "end-ss", "end-n", "multi-drop")


def nontrivial(cover):
    return sum(1 for k in cover if k[2] == "none" or k[-1])


def jobs(tier, seed):
    enum = []
    for li in range(len(LENS)):
        for cm in range(4):
            enum.append((li, cm, 0, 0))
            for f in (1, 2, 3):
                for p in range(len(POS)):
                    enum.append((li, cm, f, p))
            for f in (4, 5, 6, 7):
                enum.append((li, cm, f, 0))
    return enum, (200_000 if tier == "quick" else 4_000_000)


class Plan(Transport):
    def __init__(self, ctx, lat_lo, lat_hi):
        Transport.__init__(self, ctx, lat_lo, lat_hi)
        self.active = False
        self.seg = 0            # data segments sent by the server so far (incl. retransmitted)
        self.drop_at = set()
        self.flip_at = None
        self.dup_at = None
        self.end_mod = None
        self.fired = 0
        self.nseg_first = None  # number of segments in the first pass

    def route(self, frame, dst):
        lat = self.latency()
        if not self.active or frame.src != "server" or dst.name != "master":
            return [(lat, None)]
        d = frame.data
        st = self.srv.state
        if self.resp == 0:
            self.resp += 1
            return [(lat, None)]        # initiate response
        self.resp += 1
        is_end = st is not None and st.get("phase") == "end" and d[0] & 0xE3 == 0xC1
        ctx = self.ctx
        if is_end:
            m = self.end_mod
            if m is None:
                return [(lat, None)]
            self.fired += 1
            ctx.fault(m)
            b = bytearray(d)
            if m == "crc":
                b[1 + ctx.choice(2, "crcbyte")] ^= 1 << ctx.choice(8, "crcbit")
            elif m == "end-scs":
                b[0] = (b[0] & 0x1F) | ((6 + 1 + ctx.choice(7, "scs")) % 8) << 5
            elif m == "end-ss":
                b[0] = (b[0] & 0xFC) | (0, 2, 3)[ctx.choice(3, "ss")]
            elif m == "end-n":
                n = (b[0] >> 2) & 7
                n2 = (n + 1 + ctx.choice(7, "n")) % 8
                b[0] = (b[0] & 0xE3) | n2 << 2
            return [(lat, bytes(b))]
        k = self.seg
        self.seg += 1
        if k in self.drop_at:
            self.fired += 1
            ctx.fault("drop")
            return []
        if self.flip_at == k:
            self.fired += 1
            ctx.fault("flip")
            b = bytearray(d)
            b[1 + ctx.choice(7, "flipbyte")] ^= 1 << ctx.choice(8, "flipbit")
            return [(lat, bytes(b))]
        if self.dup_at == k:
            self.fired += 1
            ctx.fault("dup")
            return [(lat, None), (lat + (0, US, 400 * US)[ctx.choice(3, "dupgap")], None)]
        return [(lat, None)]


def scenario(ctx):
    li = ctx.choice(len(LENS) + 1, "len")
    cm = ctx.choice(4, "crcmode")
    fault = FAULTS[ctx.choice(len(FAULTS), "fault")]
    pi = ctx.choice(len(POS), "pos")
    w = world.ClientWorld(ctx)
    plan = Plan(ctx, w.ch.transport.lat_lo, w.ch.transport.lat_hi)
    plan.srv = w.srv
    w.ch.transport = plan
    srv, node = w.srv, w.node
    if li < len(LENS):
        length = LENS[li]
    else:
        length = 1 + ctx.choice(10_000 if ctx.params.get("tier") == "thorough" else 2_000, "lenv")
    creq, csup = CRCM[cm]
    srv.style.crc = csup
    srv.style.blk_size_indicated = ctx.choice(4, "sizeind") != 1
    crc_on = creq and csup
    if crc_on:
        ctx.probe("crc-in-force")
    if fault in ("flip", "end-n") and not crc_on:
        fault = "none"          # undetectable without CRC: not injected
    if fault == "crc" and not crc_on:
        fault = "none"
    nseg = max(1, (length + 6) // 7)
    p = POS[pi]
    if isinstance(p, int):
        pos = p
    elif p == "mid":
        pos = nseg // 2
    else:
        pos = nseg - 1 - (0 if p == "last" else int(p[5:]))
    if fault == "drop":
        plan.drop_at = {pos}
    elif fault == "multi-drop":
        n = 2 + ctx.choice(3, "nloss")
        plan.drop_at = set(ctx.choice(nseg + 2, "losspos") for _ in range(n))
    elif fault == "flip":
        plan.flip_at = pos
    elif fault == "dup":
        plan.dup_at = pos
    elif fault in ("crc", "end-scs", "end-ss", "end-n"):
        plan.end_mod = fault
    index, sub = 0x2000 + ctx.choice(0x100, "idx"), ctx.choice(256, "sub")
    value = world.pattern(length, 1 + ctx.choice(200, "salt"))
    if length >= 3 and ctx.choice(8, "crc0") == 0:
        # a value whose CRC-16 is 0x0000 (any data followed by its own checksum): a checksum of zero is a checksum
        value = value[:-2] + crc16_xmodem(value[:-2]).to_bytes(2, "big")
        ctx.probe("crc-is-zero")
    srv.store[(index, sub)] = value
    buffering = (1024, 0, 7, 64, 10, 1000)[ctx.choice(6, "buffering")]
    # how the caller takes the data: all at once, or in pieces of k bytes (through the buffered reader the raw stream is
    # then offered room for fewer bytes than a segment holds)
    piece = (0, 0, 1, 3, 10, 100, 1023, 1030)[ctx.choice(8, "piece")]
    if piece:
        ctx.probe("read-in-pieces")
    if ctx.choice(8, "peek") == 1:
        # an earlier caller took only the first bytes of a short value from the raw block-upload stream and closed it (the
        # value fits into one segment, the transfer is complete on the wire, part of the segment was never handed out)
        pn = 2 + ctx.choice(6, "peeklen")
        pk = 1 + ctx.choice(pn - 1, "peekk")
        pv = world.pattern(pn, 99)
        psub = (sub + 1) % 256
        srv.store[(index, psub)] = pv

        def peek():
            fp = node.sdo.open(index, psub, "rb", buffering=0, block_transfer=True, request_crc_support=creq)
            buf = bytearray(pk)
            got = fp.readinto(buf)
            fp.close()
            return bytes(buf[:got])
        pres, pexc = call(peek)
        ctx.drain()
        if pexc is not None or pres != pv[:pk]:
            ctx.violation("C13/undisturbed-wrong-data/early-stop", "raw readinto(%d bytes) of the %d-byte value %s, then close(): got %r / %r" % (pk, pn, pv.hex(), pres, pexc))
        srv.illegal.clear()
        ctx.probe("caller-stopped-reading-early")
    plan.active = True
    plan.resp = 0

    def do():
        with node.sdo.open(index, sub, "rb", buffering=buffering, block_transfer=True,
                           request_crc_support=creq) as fp:
            if not piece:
                return fp.read()
            out = bytearray()
            while True:
                part = fp.read(piece)
                if not part:
                    return bytes(out)
                out += part
    res, exc = call(do)
    plan.active = False
    ctx.drain()
    if exc is None:
        res = need_bytes(ctx, "C13", res, "block upload %04X:%02X len=%d" % (index, sub, length))
    fired = plan.fired > 0
    what = "block upload %04X:%02X len=%d (%d segments) crc(client=%s,server=%s) fault=%s@%s" % (
        index, sub, length, nseg, creq, csup, fault, sorted(plan.drop_at) if fault.endswith("drop") else pos)
    outcome = "ok" if exc is None else type(exc).__name__
    posclass = p if not isinstance(p, int) else (p if p < 3 else "early")
    ctx.cover((min(li, len(LENS)), cm, fault, posclass, outcome, fired))
    ctx.log("bu", length, cm, fault, pos, outcome, fired)
    if nseg > 127:
        ctx.probe("multi-subblock")
    if srv.bu_stats and srv.bu_stats.get("retx"):
        ctx.probe("retransmit-requested")
    crcs = "crc" if crc_on else "no-crc"

    if not fired:
        # undisturbed: exact data, right acknowledges, transfer closed
        if exc is not None:
            ctx.violation("C13/undisturbed-raised/%s@%s/%s" % (type(exc).__name__, site(exc), "client-crc-%s,server-crc-%s" % (creq, csup)),
                          "%s raised %r" % (what, exc))
        if bytes(res) != value:
            ctx.violation("C13/undisturbed-wrong-data/%s" % crcs,
                          "%s returned %d bytes %s.., server holds %s.." % (what, len(res), bytes(res)[:16].hex(), value[:16].hex()))
        if srv.illegal:
            reason, frame = srv.illegal[0]
            ctx.violation("C13/undisturbed-illegal-frame/%s" % reason.split("(")[0], "%s: client frame %s: %s" % (what, frame, reason))
        st = srv.bu_stats
        if st is None or ("bu", index, sub) not in srv.served[-1:]:
            ctx.violation("C13/transfer-not-closed", "%s: the client did not end the block upload (no A1 frame seen); server state %r" % (what, srv.state and srv.state.get("phase")))
        for ack, sent in st["acks"]:
            if ack != sent:
                ctx.violation("C13/undisturbed-wrong-ackseq", "%s: sub-block of %d segments acknowledged with ackseq %d" % (what, sent, ack))
        ctx.probe("undisturbed-ok")
        return
    # disturbed: exactly the server's value, or an SDO error - never other data
    indist = False
    if fault == "dup" and pos == nseg - 1:
        seq = ((nseg - 1) % 127) + 1
        if (0x80 | seq) & 0xE3 == 0xC1:
            # the duplicate of the last segment (c=1, this seqno) arrives where
            # the end frame is expected and has the bit pattern of one
            # (scs=6, ss=1): protocol-indistinguishable (rule 3), not judged
            indist = True
            ctx.probe("indistinguishable-duplicate")
    if exc is None and crc_on and fault in ("flip", "end-n") and bytes(res) != value and crc16_xmodem(bytes(res)) == crc16_xmodem(value):
        # the corrupted data has the checksum of the original (e.g. a value whose CRC is 0x0000 followed by padding
        # zeros): the checksum cannot tell them apart; only a size announced by the server can (rule 3 otherwise)
        if not (srv.style.blk_size_indicated and len(res) != len(value)):
            indist = True
            ctx.observe("crc-collision-not-detectable")
    if exc is None:
        if bytes(res) != value and not indist:
            detect = "sequence-detectable" if fault in ("drop", "dup", "multi-drop") else "crc-detectable"
            ctx.violation("C13/wrong-data-returned/%s/%s" % (crcs, detect),
                          "%s returned %d bytes %s.. although the server holds %d bytes %s.. (first difference at byte %d)" % (
                              what, len(res), bytes(res)[:16].hex(), len(value), value[:16].hex(),
                              next((i for i, (a, b) in enumerate(zip(bytes(res), value)) if a != b), min(len(res), len(value)))))
        ctx.probe("repaired")
    else:
        if not isinstance(exc, SdoError):
            ctx.violation("C13/wrong-exception/%s@%s" % (type(exc).__name__, site(exc)), "%s raised %r (not an SdoError)" % (what, exc))
        ctx.probe("sdo-error-after-fault")
