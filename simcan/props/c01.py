"""C01 - SDO client transfers exactly the caller's bytes in conformant frames.

System: real Network + RemoteNode/SdoClient (+ io.Buffered*/TextIOWrapper)
against RefSdoServer (strict CiA 301 model with request monitor).  Mode I,
fault-free: delivery timing varies below the time-out only.
"""
import io

import canopen
from canopen import objectdictionary as odm

from simcan import world
from simcan.bus import PeerEndpoint
from simcan.core import HarnessError, Hang, MS, SEC, US
from simcan.models.sdo_server import RefSdoServer
from simcan.util import call, lenclass, site, need_bytes

ID = "C01"
LEVEL = "exploration"
BUDGET = {"quick": 30, "thorough": 420}
RULE = ("one run = a history of 1..6 back-to-back transfers on one client; case key = (direction, "
        "length class [0..8 exact, then residue mod 7 / boundary class], API path, size-declared/"
        "forced/undeclared or server response style, client OD entry kind, chunking class, position in "
        "history); every key involves a real transfer, so all are non-trivial; distinct = distinct keys")
EXHAUSTIVE_CORE = ("every payload length 0..64 x direction x API path {call, raw stream, buffered stream, "
                   "text stream, typed accessor} x {declared, declared+forced segmentation, undeclared} "
                   "(download) / server style {expedited with size or segmented with size, expedited "
                   "without size, segmented with size, segmented without size} (upload), and every 2-way split "
                   "of every payload of 0..16 bytes through the raw, buffered and text streams, each as first "
                   "transfer of a history; other chunkings, addresses and the rest of the history are seeded")
ASSUMPTIONS = [
    "RefSdoServer is my reading of CiA 301 (expedited/segmented): it is the standard-conformant server of the statement",
    "text-mode payloads are printable ASCII plus \\n (TextIOWrapper newline translation is CPython's, not canopen's)",
    "a raw (unbuffered) writer follows the RawIOBase contract: it advances by the returned count and re-offers more data after a 0/None return",
]
COMPONENTS = {
    "real": ["canopen.Network.send_message/notify", "canopen.network.MessageListener", "canopen.RemoteNode",
             "canopen.sdo.client (SdoClient, ReadableStream, WritableStream)", "canopen.sdo.base accessors",
             "CPython io.BufferedReader/BufferedWriter/TextIOWrapper", "python-can Message/BusABC"],
    "stub": ["CAN backend (SimBus)", "can.Notifier thread (inline delivery in virtual time)",
             "time/queue modules inside canopen.sdo.client (virtual clock, SimQueue)",
             "SDO server (RefSdoServer reference model)"],
}
PROBES = ["closed-twice", "dl-exp", "dl-seg", "ul-exp_size", "ul-exp_nosize", "ul-seg_size", "ul-seg_nosize",
          "closing-empty-segment", "truncated-to-od-size", "zero-progress-write-loop", "caller-stopped-reading-early"]

LENS = list(range(65)) + [69, 70, 71, 127, 128, 889, 890, 891, 1023, 1024, 1025, 1026]
DL_API = ("download", "raw", "buffered", "text", "accessor")
DL_VAR = ("declared", "forced", "undeclared")
UL_API = ("upload", "raw", "buffered", "text", "accessor")
UL_STYLE = ("auto", "exp_nosize", "seg_size", "seg_nosize")
OD_KINDS = ("none", "domain", "octet", "vstring", "num-match", "num-small", "num-big", "ustring", "tod", "unknown")
NUM_TYPES = (odm.UNSIGNED8, odm.INTEGER8, odm.UNSIGNED16, odm.INTEGER16, odm.UNSIGNED24, odm.UNSIGNED32,
             odm.INTEGER32, odm.REAL32, odm.UNSIGNED40, odm.UNSIGNED48, odm.UNSIGNED56, odm.UNSIGNED64,
             odm.INTEGER64, odm.REAL64, odm.BOOLEAN)
IDX_SPECIAL = (0x2000, 0x0000, 0xFFFF, 0x1018, 0x80FF, 0xFF80, 0x1000, 0x6040)


def jobs(tier, seed):
    enum = []
    for li in range(65):
        for api in range(5):
            for v in range(3):
                enum.append((0, li, api, v))
            for s in range(4):
                enum.append((1, li, api, s))
    # every 2-way split of the payload (write(a) + write(rest) / read(a) + read-the-rest) for lengths 0..16
    for li in range(17):
        for a in range(li + 1):
            for api in (1, 2, 3):
                for v in range(3):
                    enum.append((0, li, api, v, a + 1))
                enum.append((1, li, api, 2, a + 1))
                enum.append((1, li, api, 0, a + 1))
    return enum, (400_000 if tier == "quick" else 6_000_000)


class _WriteGuard:
    """Detects a zero-progress loop of BufferedWriter around raw.write()."""

    def __init__(self, raw):
        self.raw = raw
        self.zero = 0
        self.orig = raw.write
        raw.write = self

    def __call__(self, b):
        n = self.orig(b)
        if n:
            self.zero = 0
        else:
            self.zero += 1
            if self.zero > 50:
                raise _ZeroProgress()
        return n


class _ZeroProgress(Exception):
    pass


def _pick_index(ctx):
    k = ctx.choice(len(IDX_SPECIAL) + 2, "idx")
    if k < len(IDX_SPECIAL):
        return IDX_SPECIAL[k]
    return ctx.choice(0x10000, "idxv")


def _pick_sub(ctx):
    k = ctx.choice(4, "sub")
    if k == 0:
        return 0
    if k == 1:
        return 255
    return ctx.choice(256, "subv")


def _install_od(node, index, sub, kind, ntype):
    """(Re)define the client-side OD entry for (index, sub)."""
    od = node.object_dictionary
    if index in od.indices:
        old = od.indices[index]
        del od.indices[index]
        od.names.pop(old.name, None)
    if kind == "none":
        return None
    dt = {"domain": odm.DOMAIN, "octet": odm.OCTET_STRING, "vstring": odm.VISIBLE_STRING,
          "ustring": odm.UNICODE_STRING, "tod": odm.TIME_OF_DAY, "unknown": 0x40}.get(kind, ntype)
    name = "Obj%04X" % index
    if sub == 0:
        v = world.var(name, index, 0, dt)
        od.add_object(v)
    elif sub >= 2 and (index + sub) % 3 == 0:
        # an array whose dictionary lists the first member only: ODArray derives the addressed
        # member (data type, and with it the declared size) from that one
        v = world.var("m1", index, 1, dt)
        od.add_object(world.array(name, index, [world.var("n", index, 0, odm.UNSIGNED8), v]))
    else:
        v = world.var("m%d" % sub, index, sub, dt)
        od.add_object(world.record(name, index, [world.var("n", index, 0, odm.UNSIGNED8), v]))
    return v


def _member_name(node, index, sub):
    obj = node.object_dictionary[index]
    if isinstance(obj, odm.ODArray) and sub not in obj.subindices:
        return None                 # a member ODArray derives from the first one can be addressed by number only
    return "m%d" % sub


def _chunks(ctx, total, small):
    """Split `total` bytes into write()/read() call sizes from the tape."""
    mode = ctx.choice(5, "chunkmode")
    fs = getattr(ctx, "forced_split", 0)
    if fs:
        ctx.forced_split = 0
        a = min(fs - 1, total)
        return [c for c in (a, total - a) if c] or [0], "two"
    if mode == 0 or total == 0:
        return [total] if total else [0], "one"
    out = []
    left = total
    if mode == 1:       # two-way split
        a = ctx.choice(total + 1, "split") if small else ctx.choice(min(total, 64) + 1, "split")
        out = [a, total - a]
        return [c for c in out if c] or [0], "two"
    if mode == 2:       # fixed size k
        k = 1 + ctx.choice(16, "k")
        while left > 0:
            out.append(min(k, left))
            left -= k
        return out, "fixed%d" % (k if k <= 8 else 9)
    if mode == 3:       # multiples of 7
        k = 7 * (1 + ctx.choice(4, "k7"))
        while left > 0:
            out.append(min(k, left))
            left -= k
        return out, "mult7"
    # random sizes
    guard = 0
    while left > 0:
        k = 1 + ctx.choice(24, "kr")
        out.append(min(k, left))
        left -= k
        guard += 1
        if guard > 4000:
            out.append(left)
            break
    return out, "random"


def _buffering(ctx):
    return ctx.pick((1024, 2, 3, 5, 7, 8, 13, 64, 4096), "buffering")


def scenario(ctx):
    first_dir = ctx.choice(2, "dir")
    first_len = ctx.choice(len(LENS) + 1, "len")
    first_api = ctx.choice(5, "api")
    first_var = ctx.choice(4, "variant")
    ctx.forced_split = ctx.choice(18, "fsplit")      # 0: seeded chunking; k: first transfer split after k-1 bytes
    ch = world.make_channel(ctx)
    net, bus = world.make_network(ctx, ch, "master")
    node_id = 1 + ctx.choice(127, "node")
    node = canopen.RemoteNode(node_id, canopen.ObjectDictionary())
    net.add_node(node)
    ep = PeerEndpoint(ch, "server")
    srv = RefSdoServer(ctx, ep, 0x600 + node_id, 0x580 + node_id)
    ep.handler = srv.handler
    srv.resp_delay = (0, 20 * US, 2 * MS)[ctx.choice(3, "respdelay")]
    to = (0.3, 0.12, 1.0)[ctx.choice(3, "timeout")]
    worst = 2 * (ch.transport.lat_hi + ch.frame_time(8)) + srv.resp_delay
    if to * SEC < 3 * worst:
        to = 0.3
    node.sdo.RESPONSE_TIMEOUT = to
    stray = []
    ch.monitors.append(lambda fr: stray.append(fr) if fr.src == "master" and fr.can_id != 0x600 + node_id else None)

    n_more = ctx.choice(6, "history")
    for k in range(1 + n_more):
        with ctx.span("xfer"):
            if k == 0:
                d, li, api, v = first_dir, first_len, first_api, first_var
            else:
                d, li, api, v = ctx.choice(2, "dir"), ctx.choice(len(LENS) + 1, "len"), ctx.choice(5, "api"), ctx.choice(4, "variant")
            if li < len(LENS):
                length = LENS[li]
            else:
                length = ctx.choice(10_001 if ctx.params.get("tier") == "thorough" else 2_001, "lenv")
            _transfer(ctx, ch, node, srv, d, length, api, v, k, stray)


def _transfer(ctx, ch, node, srv, d, length, api, v, pos, stray):
    index = _pick_index(ctx)
    sub = _pick_sub(ctx)
    salt = 1 + ctx.choice(250, "salt")
    okind = OD_KINDS[ctx.choice(len(OD_KINDS), "odkind")]
    ntype = NUM_TYPES[ctx.choice(len(NUM_TYPES), "ntype")]
    srv.illegal.clear()
    if pos > 0 and ctx.choice(8, "peek") == 1:
        sub2 = (sub + 1) % 256
        srv.expect = (index, sub2)
        m0 = ch.n
        _peek(ctx, node, srv, index, sub, salt)
        _check_illegal(ctx, srv, "early-stop read of %04X:%02X" % (index, sub2))
        if any(f.data[0] >> 5 in (1, 2) and (f.data[1] | f.data[2] << 8, f.data[3]) != (index, sub2) for f in ch.frames(can_id=srv.rx_cobid, since=m0)):
            ctx.violation("C01/illegal-frame/wrong-multiplexer", "early-stop read of %04X:%02X: an initiate frame addresses another object" % (index, sub2))
        srv.illegal.clear()
    mark = ch.n
    srv.expect = (index, sub)
    if d == 0:
        _download(ctx, ch, node, srv, index, sub, length, DL_API[api], DL_VAR[v % 3], okind, ntype, salt, pos)
    else:
        _upload(ctx, ch, node, srv, index, sub, length, UL_API[api], UL_STYLE[v], okind, ntype, salt, pos)
    if stray:
        ctx.violation("C01/frame-on-wrong-cobid", "client sent %r" % (stray[0],))
    if srv.state is not None:
        ctx.violation("C01/transfer-left-open", "server still in state %s after the call returned" % srv.state["k"])
    # every initiate of this transfer must carry the multiplexer
    for fr in ch.frames(can_id=srv.rx_cobid, since=mark):
        ccs = fr.data[0] >> 5
        if ccs in (1, 2) and len(fr.data) >= 4:
            mux = (fr.data[1] | fr.data[2] << 8, fr.data[3])
            if mux != (index, sub):
                ctx.violation("C01/illegal-frame/wrong-multiplexer",
                              "initiate %s addresses %04X:%02X, expected %04X:%02X" % (fr.data.hex(), mux[0], mux[1], index, sub))


def _check_illegal(ctx, srv, what):
    if srv.illegal:
        reason, frame = srv.illegal[0]
        ctx.violation("C01/illegal-frame/%s" % reason.split("(")[0],
                      "%s: client frame %s is not legal here: %s" % (what, frame, reason))


def _download(ctx, ch, node, srv, index, sub, length, api, variant, okind, ntype, salt, pos):
    text = api == "text"
    data = world.pattern(length, salt, text)
    if text and length and ctx.choice(3, "nl") == 1:
        k = ctx.choice(length, "nlpos")
        data = data[:k] + b"\n" + data[k + 1:]
    declared = variant != "undeclared"
    force = variant == "forced"
    size = length if declared else None
    chunk_class = "-"
    what = "download %04X:%02X len=%d api=%s variant=%s" % (index, sub, length, api, variant)
    ncommits = len(srv.commits)
    zero_loop = False
    if api == "download":
        # download() always declares the size
        variant = "forced" if force else "declared"
        _install_od(node, index, sub, okind, ntype)
        res, exc = call(node.sdo.download, index, sub, data, force)
    elif api == "accessor":
        # typed accessor on an entry whose type passes bytes through
        kind = okind if okind in ("domain", "octet", "vstring", "ustring", "tod", "unknown") else "domain"
        okind = kind
        _install_od(node, index, sub, kind, ntype)
        variant = "forced" if kind == "domain" else "declared"
        byname = ctx.choice(2, "byname")

        def do():
            name = "Obj%04X" % index
            if sub == 0:
                var = node.sdo[name] if byname else node.sdo[index]
            else:
                var = node.sdo[name + "." + _member_name(node, index, sub)] if byname and _member_name(node, index, sub) else node.sdo[index][sub]
            if ctx.choice(2, "rawdata"):
                var.raw = data
            else:
                var.data = data
        res, exc = call(do)
    else:
        _install_od(node, index, sub, okind, ntype)
        chunks, chunk_class = _chunks(ctx, length, length <= 16)
        buffering = 0 if api == "raw" else _buffering(ctx)
        flush_some = ctx.choice(3, "flush") == 1
        close_twice = ctx.choice(3, "closetwice") == 1

        def do():
            nonlocal zero_loop
            if api == "raw":
                fp = node.sdo.open(index, sub, "wb", buffering=0, size=size, force_segment=force)
                try:
                    p = 0
                    ci = 0
                    offer = 0
                    while p < length:
                        offer += chunks[ci] if ci < len(chunks) else length
                        ci += 1
                        while offer > 0:
                            n = fp.write(memoryview(data)[p:p + offer] if ctx.choice(2, "mv") else data[p:p + offer])
                            if not n:
                                if p + offer >= length:
                                    raise HarnessError("raw write made no progress although all data was offered")
                                break
                            p += n
                            offer -= n
                finally:
                    fp.close()
                    if close_twice:
                        fp.close()      # io: "This method has no effect if the file is already closed"
                return
            if api == "buffered":
                fp = node.sdo.open(index, sub, "wb", buffering=buffering, size=size, force_segment=force)
                guard = _WriteGuard(fp.raw)
            else:
                fp = node.sdo.open(index, sub, "w", encoding="ascii", buffering=(1 if ctx.choice(2, "linebuf") else buffering),
                                   size=size, force_segment=force)
                guard = _WriteGuard(fp.buffer.raw)
            try:
                with fp:
                    p = 0
                    for c in chunks:
                        piece = data[p:p + c]
                        p += c
                        fp.write(piece.decode("ascii") if text else piece)
                        if flush_some and ctx.choice(3, "flushnow") == 1:
                            fp.flush()
                    if close_twice:
                        fp.close()      # explicit close inside the with-block, closed again on exit
            except _ZeroProgress:
                zero_loop = True
                guard.raw.write = lambda b: len(b)     # let close() finish
                try:
                    fp.close()
                except Exception:
                    pass
        res, exc = call(do)
    key = ("dl", lenclass(length), api, variant, okind, chunk_class, min(pos, 2))
    ctx.cover(key)
    if api in ("raw", "buffered", "text") and close_twice:
        ctx.probe("closed-twice")
    for p in srv.paths:
        ctx.probe(p)
    srv.paths.clear()
    if zero_loop:
        # BufferedWriter spins forever when the raw stream accepts 0 bytes
        # (expedited transfer, buffer smaller than the declared size).  The
        # statement speaks about completed downloads only: observation.
        ctx.observe("buffered-writer-zero-progress-loop(expedited,size>buffer)")
        ctx.probe("zero-progress-write-loop")
        ctx.log("dl-zero-loop", index, sub, length)
        node.sdo.responses = type(node.sdo.responses)()
        srv.state = None
        return
    _check_illegal(ctx, srv, what)
    if exc is not None:
        ctx.violation("C01/download-raised/%s@%s" % (type(exc).__name__, site(exc)), "%s raised %r" % (what, exc))
    new = srv.commits[ncommits:]
    if len(new) != 1:
        ctx.violation("C01/download-commit-count", "%s: server committed %d values" % (what, len(new)))
    ci, cs, cd = new[0]
    if (ci, cs) != (index, sub):
        ctx.violation("C01/download-wrong-object", "%s: committed to %04X:%02X" % (what, ci, cs))
    if cd != data:
        ctx.violation("C01/download-data-mismatch",
                      "%s: server committed %d bytes %s.., caller wrote %d bytes %s.." % (what, len(cd), cd[:16].hex(), len(data), data[:16].hex()))
    ctx.log("dl-ok", index, sub, length, api, variant)


def _peek(ctx, node, srv, index, sub, salt):
    """A caller that takes only the first bytes of a short value (a length prefix, a magic number) from the raw stream and
    closes it: the value fits into one segment, so the transfer is complete on the wire, but part of that segment was
    never handed out.  What it got must be the leading bytes; the transfers that follow in the history are judged as always."""
    n = 2 + ctx.choice(6, "peeklen")                # 2..7 bytes on the server
    k = 1 + ctx.choice(n - 1, "peekk")              # 1..n-1 bytes wanted
    value = world.pattern(n, salt + 77)
    sub2 = (sub + 1) % 256
    srv.store[(index, sub2)] = value
    srv.style.up = ("seg_size", "seg_nosize", "auto")[ctx.choice(3, "peekstyle")]
    srv.style.seg_len = None

    def do():
        fp = node.sdo.open(index, sub2, "rb", buffering=0)
        buf = bytearray(k)
        got = fp.readinto(buf)
        fp.close()
        return bytes(buf[:got])
    res, exc = call(do)
    what = "raw readinto(%d bytes) of the %d-byte value at %04X:%02X, then close()" % (k, n, index, sub2)
    if exc is not None:
        ctx.violation("C01/upload-raised/%s@%s" % (type(exc).__name__, site(exc)), "%s raised %r" % (what, exc))
    if res != value[:k]:
        ctx.violation("C01/upload-data-mismatch/raw", "%s returned %s, the server holds %s" % (what, res.hex(), value.hex()))
    ctx.probe("caller-stopped-reading-early")


def _upload(ctx, ch, node, srv, index, sub, length, api, style, okind, ntype, salt, pos):
    text = api == "text"
    value = world.pattern(length, salt, text)
    if text and length and ctx.choice(3, "nl") == 1:
        k = ctx.choice(length, "nlpos")
        value = value[:k] + b"\n" + value[k + 1:]
    srv.store[(index, sub)] = value
    srv.style.up = style
    if ctx.choice(3, "seglen") == 1:
        srv.style.seg_len = lambda: 7 - ctx.choice(7, "sl")
    else:
        srv.style.seg_len = None
    what = "upload %04X:%02X len=%d api=%s style=%s od=%s" % (index, sub, length, api, style, okind)
    chunk_class = "-"
    expected = value
    if api in ("upload", "accessor"):
        if api == "accessor" and okind == "none":
            okind = "domain"
        if okind.startswith("num"):
            # num-match: server holds exactly the declared number of bytes;
            # num-small/num-big: OD declares fewer / more bytes than the server holds
            pass
        v = _install_od(node, index, sub, okind, ntype)
        if okind.startswith("num"):
            nbytes = len(v) // 8
            expected = value[:nbytes]
            if len(expected) < len(value):
                ctx.probe("truncated-to-od-size")
            okind = "num-small" if nbytes < length else ("num-match" if nbytes == length else "num-big")
        if api == "upload":
            res, exc = call(node.sdo.upload, index, sub)
        else:
            byname = ctx.choice(2, "byname")

            def do():
                name = "Obj%04X" % index
                if sub == 0:
                    var = node.sdo[name] if byname else node.sdo[index]
                else:
                    var = node.sdo[name + "." + _member_name(node, index, sub)] if byname and _member_name(node, index, sub) else node.sdo[index][sub]
                if okind in ("domain", "octet") and ctx.choice(2, "rawdata"):
                    return var.raw
                return var.data
            res, exc = call(do)
    else:
        _install_od(node, index, sub, okind, ntype)
        mode = ctx.choice(6, "readmode")
        fs = getattr(ctx, "forced_split", 0)
        ctx.forced_split = 0
        first_n = fs - 1 if fs else None
        sizes_src = lambda: 1 + ctx.choice(20, "rn")
        buffering = 0 if api == "raw" else _buffering(ctx)

        def do():
            nonlocal chunk_class
            out = bytearray()
            if api == "raw":
                fp = node.sdo.open(index, sub, "rb", buffering=0)
                with fp:
                    if first_n is not None:
                        chunk_class = "two"
                        if first_n:
                            out += fp.read(first_n)
                        out += fp.read()
                    elif mode in (0, 4, 5):
                        chunk_class = "readall"
                        out += fp.read()
                    elif mode == 1:
                        chunk_class = "read(n)"
                        for _ in range(20000):
                            b = fp.read(sizes_src())
                            if not b:
                                break
                            out += b
                    elif mode == 2:
                        chunk_class = "readinto>=7"
                        for _ in range(20000):
                            buf = bytearray(7 + ctx.choice(10, "rb"))
                            n = fp.readinto(buf)
                            if not n:
                                break
                            out += buf[:n]
                    else:
                        chunk_class = "readinto-any"
                        for _ in range(20000):
                            buf = bytearray(sizes_src())
                            n = fp.readinto(buf)
                            if not n:
                                break
                            out += buf[:n]
                return bytes(out)
            if api == "buffered":
                fp = node.sdo.open(index, sub, "rb", buffering=buffering)
                with fp:
                    if first_n is not None:
                        chunk_class = "two"
                        out += fp.read(first_n)
                        out += fp.read()
                    elif mode == 0:
                        chunk_class = "read()"
                        out += fp.read()
                    elif mode == 1:
                        chunk_class = "read(n)"
                        for _ in range(20000):
                            b = fp.read(sizes_src())
                            if not b:
                                break
                            out += b
                    elif mode == 2:
                        chunk_class = "read1"
                        for _ in range(20000):
                            b = fp.read1(sizes_src())
                            if not b:
                                break
                            out += b
                    elif mode == 3:
                        chunk_class = "readinto"
                        for _ in range(20000):
                            buf = bytearray(sizes_src())
                            n = fp.readinto(buf)
                            if not n:
                                break
                            out += buf[:n]
                    elif mode == 4:
                        chunk_class = "lines"
                        for line in fp:
                            out += line
                    else:
                        chunk_class = "mixed"
                        for _ in range(20000):
                            k = ctx.choice(3, "mix")
                            if k == 0:
                                b = fp.read(sizes_src())
                            elif k == 1:
                                b = fp.read1(sizes_src())
                            else:
                                b = fp.readline(sizes_src())
                            if not b:
                                break
                            out += b
                return bytes(out)
            fp = node.sdo.open(index, sub, "r", encoding="ascii", buffering=(1 if ctx.choice(2, "linebuf") else buffering))
            s = []
            with fp:
                if first_n is not None:
                    chunk_class = "two"
                    s.append(fp.read(first_n))
                    s.append(fp.read())
                elif mode in (0, 5):
                    chunk_class = "read()"
                    s.append(fp.read())
                elif mode in (1, 3):
                    chunk_class = "read(n)"
                    for _ in range(20000):
                        b = fp.read(sizes_src())
                        if not b:
                            break
                        s.append(b)
                elif mode == 2:
                    chunk_class = "readline"
                    for _ in range(20000):
                        b = fp.readline()
                        if not b:
                            break
                        s.append(b)
                else:
                    chunk_class = "lines"
                    for line in fp:
                        s.append(line)
            return "".join(s).encode("ascii")
        res, exc = call(do)
    key = ("ul", lenclass(length), api, style, okind, chunk_class, min(pos, 2))
    ctx.cover(key)
    for p in srv.paths:
        ctx.probe(p)
    srv.paths.clear()
    _check_illegal(ctx, srv, what)
    if exc is not None:
        ctx.violation("C01/upload-raised/%s@%s" % (type(exc).__name__, site(exc)),
                      "%s (%s) raised %r" % (what, chunk_class, exc))
    got = need_bytes(ctx, "C01", res, what)
    if got != expected:
        if okind.startswith("num"):
            ctx.violation("C01/upload-numeric-truncation",
                          "%s: returned %d bytes %s, expected the %d leading bytes %s" % (what, len(got), got[:16].hex(), len(expected), expected[:16].hex()))
        cause = api
        if api in ("upload", "accessor"):
            cause = "od-type-neither-number-nor-string" if okind in ("tod", "unknown") else "od-" + okind
        ctx.violation("C01/upload-data-mismatch/%s" % cause,
                      "%s (%s): returned %d bytes %s.., server holds %d bytes %s.." % (what, chunk_class, len(got), got[:16].hex(), len(value), value[:16].hex()))
    ctx.log("ul-ok", index, sub, length, api, style)
