"""C12 - SDO block download delivers exactly the payload or fails visibly.

System: real BlockDownloadStream (SdoClient.open('wb', size=N, block_transfer=True))
against RefSdoServer's block download, which picks a new block size for every
sub-block, negotiates CRC or not, ignores out-of-sequence segments and
acknowledges the last in-order one (CiA 301), and aborts on a stalled sub-block.
Faults: lost client segments (every single position), lost acknowledges,
duplicated segments, delayed acknowledges, the end request lost on its way to
the server, the server's end confirmation lost.
"""
from canopen.sdo.exceptions import SdoError

from simcan import world
from simcan.bus import Transport
from simcan.core import MS, SEC, US
from simcan.models.sdo_server import crc16_xmodem
from simcan.util import call, site

ID = "C12"
LEVEL = "fault_enumeration"
BUDGET = {"quick": 40, "thorough": 480}
RULE = ("one run = one block download with a block-size policy and at most one fault class; case key = (length "
        "class, block-size policy, CRC mode, fault kind, position class [sub-block: first/middle/final; in "
        "sub-block: first/inner/last], outcome); non-trivial = a transfer ran and, for fault cases, the fault fired")
EXHAUSTIVE_CORE = ("24 payload lengths (all 7k-1,7k,7k+1 up to 36, block boundaries 888..897, 1779) x block-size policy "
                   "{127,1,2,3,4,7,seeded per sub-block} x CRC on/off x {no fault, every single lost segment position "
                   "among the first 24 and the last 4, lost acknowledge of the first/last sub-block}")
ASSUMPTIONS = [
    "RefSdoServer block download follows CiA 301: out-of-sequence segments are ignored, the sub-block ends with the "
    "segment numbered blksize or carrying c=1, the acknowledge names the last in-order segment, a stalled sub-block is aborted with 0x05040000",
    "a non-zero CRC field sent although the client did not announce CRC support is tolerated (observation, not judged)",
    "the payload is written with one write() call or in chunks of 7, 14, 70, 10, 100 or 512 bytes; for chunks that are not multiples of 7 "
    "BufferedWriter has to carry a tail over a raw stream that takes nothing (None) mid-stream - where CPython gives up with BlockingIOError "
    "(anywhere in the exception chain) the run is an observation, outside this property's quantifier; where it gets through, the run is judged",
    "'fails visibly' = any exception out of the with-block; the statement does not name its type",
]
COMPONENTS = {
    "real": ["canopen.sdo.client.BlockDownloadStream", "SdoClient.open/request_response/read_response/abort", "canopen.Network", "io.BufferedWriter"],
    "stub": ["CAN backend (SimBus) with fault-injecting transport", "can.Notifier", "time/queue in canopen.sdo.client", "SDO server (RefSdoServer)"],
}
PROBES = ["undisturbed-ok", "multi-subblock", "blksize-changed", "retransmit", "repaired", "crc-checked", "failed-visibly", "crc-is-zero"]

LENS = (1, 6, 7, 8, 13, 14, 15, 20, 21, 22, 27, 28, 29, 34, 35, 36, 50, 100, 888, 889, 890, 896, 897, 1779)
BLK = (127, 1, 2, 3, 4, 7, "rnd")
FAULTS = ("none", "drop-seg", "drop-ack", "dup-seg", "late-ack", "multi-drop", "drop-end-req", "drop-end-resp")
POS = tuple(range(24)) + ("last", "last-1", "last-2", "last-3")


def nontrivial(cover):
    return sum(1 for k in cover if k[3] == "none" or k[-1])


def jobs(tier, seed):
    enum = []
    for li in range(len(LENS)):
        for b in range(len(BLK)):
            for crc in range(2):
                enum.append((li, b, crc, 0, 0))
                for p in range(len(POS)):
                    enum.append((li, b, crc, 1, p))
                for p in (0, 24):
                    enum.append((li, b, crc, 2, p))
                if b in (0, 1, 6):
                    enum.append((li, b, crc, 6, 0))     # the end request never reaches the server
                    enum.append((li, b, crc, 7, 0))     # the server's end confirmation is lost
    return enum, (200_000 if tier == "quick" else 4_000_000)


class Plan(Transport):
    def __init__(self, ctx, lat_lo, lat_hi):
        Transport.__init__(self, ctx, lat_lo, lat_hi)
        self.active = False
        self.seg = 0                # client data segments seen (first transmission order, incl. retransmits)
        self.acks = 0
        self.drop_seg = set()
        self.dup_seg = None
        self.drop_ack = None
        self.late_ack = None
        self.drop_end = None        # "req" | "resp"
        self.fired = 0
        self.timeout = 0.3
        self.lost_info = []         # (sub-block index, seq, blksize, c) of lost first-pass segments
        self.dup_frame = None

    def route(self, frame, dst):
        lat = self.latency()
        if not self.active:
            return [(lat, None)]
        ctx = self.ctx
        srv = self.srv
        d = frame.data
        if frame.src == "master" and dst.name == "server":
            st = srv.state
            if self.drop_end == "req" and st is not None and st["k"] == "bd" and st["phase"] != "sub" and d[0] & 0xE3 == 0xC1 and not self.fired:
                self.fired += 1
                ctx.fault("drop-end-req")
                return []
            if st is None or st["k"] != "bd" or st["phase"] != "sub" or d[0] == 0x80:
                return [(lat, None)]
            k = self.seg
            self.seg += 1
            if k in self.drop_seg:
                self.fired += 1
                ctx.fault("drop-seg")
                self.lost_info.append((st["subblocks"], d[0] & 0x7F, st["blksize"], d[0] >> 7))
                return []
            if self.dup_seg == k:
                self.fired += 1
                ctx.fault("dup-seg")
                self.dup_frame = bytes(d)
                return [(lat, None), (lat, None)]
            return [(lat, None)]
        if frame.src == "server" and dst.name == "master" and d[0] == 0xA1 and self.drop_end == "resp" and not self.fired:
            self.fired += 1
            ctx.fault("drop-end-resp")
            return []
        if frame.src == "server" and dst.name == "master" and d[0] == 0xA2:
            k = self.acks
            self.acks += 1
            if self.drop_ack == k:
                self.fired += 1
                ctx.fault("drop-ack")
                return []
            if self.late_ack == k:
                self.fired += 1
                ctx.fault("late-ack")
                return [(lat + int(self.timeout * SEC) * (1 + ctx.choice(2, "lateby")) // 2 + MS, None)]
        return [(lat, None)]


def scenario(ctx):
    li = ctx.choice(len(LENS) + 1, "len")
    bpol = BLK[ctx.choice(len(BLK), "blk")]
    crc_mode = ctx.choice(2, "crc")      # 0: both support; 1: seeded (client, server) not both
    fault = FAULTS[ctx.choice(len(FAULTS), "fault")]
    pi = ctx.choice(len(POS), "pos")
    w = world.ClientWorld(ctx)
    plan = Plan(ctx, w.ch.transport.lat_lo, w.ch.transport.lat_hi)
    plan.srv = w.srv
    plan.timeout = w.timeout
    w.ch.transport = plan
    srv, node = w.srv, w.node
    if li < len(LENS):
        length = LENS[li]
    else:
        length = 1 + ctx.choice(10_000 if ctx.params.get("tier") == "thorough" else 2_500, "lenv")
    if crc_mode == 0:
        creq, csup = True, True
    else:
        creq, csup = ((True, False), (False, True), (False, False))[ctx.choice(3, "crcpair")]
    srv.style.crc = csup
    sizes = []

    def next_blk():
        if bpol == "rnd":
            b = 1 + ctx.choice(127, "blksize") if ctx.choice(3, "blkbig") else 1 + ctx.choice(5, "blksmall")
        else:
            b = bpol
        sizes.append(b)
        return b
    srv.style.blksize = next_blk
    srv.style.stall_timeout = int(w.timeout * SEC) // 2
    nseg = max(1, (length + 6) // 7)
    p = POS[pi]
    pos = p if isinstance(p, int) else nseg - 1 - (0 if p == "last" else int(p[5:]))
    if fault == "drop-seg":
        plan.drop_seg = {pos}
    elif fault == "multi-drop":
        plan.drop_seg = set(ctx.choice(nseg + 3, "losspos") for _ in range(2 + ctx.choice(3, "nloss")))
    elif fault == "dup-seg":
        plan.dup_seg = pos
    elif fault == "drop-ack":
        plan.drop_ack = 0 if pi == 0 else (ctx.choice(4, "ackidx") if pi != 24 else -1)
    elif fault == "late-ack":
        plan.late_ack = ctx.choice(3, "ackidx")
    elif fault in ("drop-end-req", "drop-end-resp"):
        plan.drop_end = fault[9:]
    index, sub = 0x2000 + ctx.choice(0x100, "idx"), ctx.choice(256, "sub")
    data = world.pattern(length, 1 + ctx.choice(200, "salt"))
    if length >= 3 and ctx.choice(8, "crc0") == 0:
        # a value whose CRC-16 is 0x0000 (any data followed by its own checksum): a checksum of zero is a checksum
        data = data[:-2] + crc16_xmodem(data[:-2]).to_bytes(2, "big")
        ctx.probe("crc-is-zero")
    chunk = (0, 7, 14, 70, 10, 100, 512)[ctx.choice(7, "chunk")]
    buffering = (1024, 7, 4096)[ctx.choice(3, "buffering")]
    if plan.drop_ack == -1:
        # the acknowledge of the last sub-block: find out how many there are first
        plan.drop_ack = 10 ** 9
        want_last_ack = True
    else:
        want_last_ack = False
    plan.active = True
    ncommits = len(srv.commits)

    def do():
        with node.sdo.open(index, sub, "wb", buffering=buffering, size=length, block_transfer=True,
                           request_crc_support=creq) as fp:
            if chunk == 0:
                fp.write(data)
            else:
                for i in range(0, length, chunk):
                    fp.write(data[i:i + chunk])
    if want_last_ack:
        # dry run on another object to count the acknowledges, then drop the last one
        plan.drop_ack = None
        i0 = index ^ 0x1000
        saved = list(sizes)

        def dry():
            with node.sdo.open(i0, sub, "wb", buffering=buffering, size=length, block_transfer=True,
                               request_crc_support=creq) as fp:
                fp.write(data)
        if bpol != "rnd":
            call(dry)
            ctx.drain()
            plan.drop_ack = plan.acks + (plan.acks - 1)
            ncommits = len(srv.commits)
            srv.illegal.clear()
    res, exc = call(do)
    plan.active = False
    ctx.drain()
    chain, x = [], exc
    while x is not None and len(chain) < 8:
        chain.append(x)
        x = x.__context__ if x.__context__ is not None else x.__cause__
    if chunk % 7 and any(isinstance(x, BlockingIOError) for x in chain):
        # chunks that are not multiples of 7 rely on BufferedWriter's handling of a raw stream that takes nothing (None) in the
        # middle of the payload; where CPython gives up with BlockingIOError the chunking is outside the quantifier (observation)
        ctx.observe("BufferedWriter gave up (BlockingIOError) on a chunking that is not a multiple of 7")
        return
    fired = plan.fired > 0
    crc_on = creq and csup
    what = "block download %04X:%02X len=%d (%d segments) blksizes=%s crc(client=%s,server=%s) fault=%s@%s" % (
        index, sub, length, nseg, sizes[:8], creq, csup, fault,
        sorted(plan.drop_seg) if "drop" in fault and plan.drop_seg else (plan.drop_ack if "ack" in fault else pos))
    outcome = "ok" if exc is None else type(exc).__name__
    new = srv.commits[ncommits:]
    good = len(new) == 1 and new[0] == (index, sub, data)
    if len(sizes) > 2:
        ctx.probe("multi-subblock")
    if len(set(sizes)) > 1:
        ctx.probe("blksize-changed")
    if srv.bd_stats and srv.bd_stats.get("retx"):
        ctx.probe("retransmit")
    if crc_on and good:
        ctx.probe("crc-checked")
    # classify the loss
    repair_due = False
    lossclass = "-"
    if fault == "drop-seg" and fired and len(plan.lost_info) == 1:
        sb, seq, blksize, c = plan.lost_info[0]
        # final sub-block = the one that contains the last segment of the payload
        # first-pass layout: consecutive sub-blocks of the sizes chosen so far
        start = pos - (seq - 1)
        in_final = start + blksize >= nseg
        is_last_of_sub = seq == blksize or c == 1
        lossclass = ("final" if in_final else "nonfinal") + "/" + ("last" if is_last_of_sub else ("first" if seq == 1 else "inner"))
        repair_due = (not in_final) and (not is_last_of_sub)
    ctx.cover((min(li, len(LENS)), str(bpol), crc_on, fault, lossclass, outcome, fired))
    ctx.log("bd", length, str(bpol), creq, csup, fault, pos, outcome, fired, good)
    illegal = [x for x in srv.illegal if not x[0].startswith("block-end-crc-nonzero-without-crc")]
    if len(illegal) != len(srv.illegal):
        ctx.observe("nonzero CRC field in the end frame although the client did not announce CRC support")

    if not fired:
        if exc is not None:
            ctx.violation("C12/undisturbed-raised/%s@%s" % (type(exc).__name__, site(exc)), "%s raised %r" % (what, exc))
        if illegal:
            reason, frame = illegal[0]
            ctx.violation("C12/undisturbed-illegal-frame/%s" % reason.split("(")[0], "%s: client frame %s: %s" % (what, frame, reason))
        if not good:
            ctx.violation("C12/undisturbed-wrong-data", "%s: server committed %r" % (what, [(i, s, len(d), d[:12].hex()) for i, s, d in new]))
        ctx.probe("undisturbed-ok")
        return
    indist = False
    if fault == "dup-seg" and plan.dup_frame is not None and (list(srv.bd_accepted).count(plan.dup_frame) >= 2
                                                             or list(srv.bd_enders).count(plan.dup_frame) >= 2):
        # the duplicate arrived exactly when its sequence number was the next
        # expected one (after the sub-block changed), or it carried the number
        # that ends the new sub-block (the server then acknowledges "nothing
        # received so far", exactly as if the first segments had been lost): no
        # server can tell it from a genuine segment (rule 3) - not judged for data equality
        indist = True
        ctx.probe("indistinguishable-duplicate")
    if exc is None and not good and fault == "dup-seg" and not indist:
        # duplicated segments are not among the loss patterns the statement quantifies over:
        # what happens then is reported, not judged
        ctx.observe("dup-seg: normal return although the server committed other data (outside the quantifier, not judged)")
        indist = True
    if exc is None:
        # a block download that returns normally has always committed exactly the payload
        if not good and not indist:
            ctx.violation("C12/normal-return-wrong-data/%s/%s" % (fault, lossclass),
                          "%s returned normally but the server committed %r" % (what, [(i, s, len(d), d[:12].hex()) for i, s, d in new]))
        ctx.probe("repaired")
    else:
        if repair_due:
            ctx.violation("C12/loss-not-repaired/%s@%s" % (type(exc).__name__, site(exc)),
                          "%s: one segment lost in a non-final sub-block (not its last segment: seq %d of %d) - retransmission must repair it, but the call raised %r" % (
                              what, plan.lost_info[0][1], plan.lost_info[0][2], exc))
        ctx.probe("failed-visibly")
