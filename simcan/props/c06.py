"""C06 - Refused SDO accesses report the standard abort code and change nothing.

Three set-ups (chosen per run):
 (i)   real SdoClient <-> real LocalNode/SdoServer on two Networks of one
       simulated segment: which exception, which .code, what is on the wire;
 (ii)  RefSdoClient <-> real server: frame-level refusals (wrong toggle at every
       segment position, undefined / unsupported command specifiers);
 (iii) real SdoClient <-> RefSdoServer answering with arbitrary abort codes at
       every stage (client-side decoding of the 32-bit code).
"""
import canopen
from canopen.sdo.exceptions import SdoAbortedError

from simcan import srvside, world
from simcan.bus import PeerEndpoint
from simcan.core import MS
from simcan.models import codec
from simcan.models.sdo_client import Nonconformance, RefSdoClient
from simcan.util import call, site, need_bytes

ID = "C06"
LEVEL = "exploration"
BUDGET = {"quick": 35, "thorough": 420}
RULE = ("one run = a random dictionary and a history of up to 10 operations in which refusals are placed before, between and "
        "after successful transfers; case key = (set-up, refusal kind, data type, access type, payload-length class / stage, "
        "expedited or segmented, position class); non-trivial = the refusal was actually provoked on the real code")
EXHAUSTIVE_CORE = ("every numeric type x payload lengths 0..9 x {expedited, segmented} written to a rw entry of that type (set-up i); "
                   "toggle error at each of the first 6 segment positions of segmented uploads and downloads (set-up ii); all 31 "
                   "defined abort codes, 0, 0x80000000, 0xFFFFFFFF at 6 protocol stages (set-up iii)")
ASSUMPTIONS = [
    "expected codes from CiA 301: read wo 0x06010001; write ro/const 0x06010002; missing object 0x06020000; missing sub-index 0x06090011; "
    "length mismatch one of 0x06070010/12/13; no value one of 0x060A0023/0x08000024; toggle 0x05030000; unknown command 0x05040001",
    "where several refusal conditions apply to one access, any of the applicable codes is accepted",
    "the multiplexer of the abort frame is demanded for initiate-stage and segment-stage refusals of a transfer, not for an undefined command outside any transfer",
    "sub-indices beyond the declared members of an ARRAY are not generated (the library synthesises them from member 1 by design)",
]
COMPONENTS = {
    "real": ["canopen.LocalNode._find_object/get_data/set_data", "canopen.sdo.server.SdoServer (on_request, abort, segmented_*)",
             "canopen.sdo.client.SdoClient.read_response / upload / download", "canopen.Network"],
    "stub": ["CAN backend (SimBus)", "can.Notifier", "time/queue in canopen.sdo.client", "RefSdoClient (set-up ii)", "RefSdoServer (set-up iii)"],
}
PROBES = ["read-wo", "write-ro", "missing-index", "missing-sub-of-record", "missing-sub-of-var", "wrong-length", "no-value", "toggle-up", "toggle-down",
          "unknown-command", "client-decoding", "valid-after-refusal", "refusal-on-closing-segment-of-undeclared-stream", "download-interleaved-with-upload-of-ro"]
# probes that mark an injected disturbance; the runner also counts them as fired faults in the evidence
FAULT_PROBES = {'toggle-down': 'wrong-toggle-request', 'toggle-up': 'wrong-toggle-request', 'unknown-command': 'unknown-command-request'}

WO, RO, NOOBJ, NOSUB, LEN, LEN_HI, LEN_LO, NOVAL1, NOVAL2, TOGGLE, CMD = (
    0x06010001, 0x06010002, 0x06020000, 0x06090011, 0x06070010, 0x06070012, 0x06070013, 0x060A0023, 0x08000024, 0x05030000, 0x05040001)
DEFINED = (0x05030000, 0x05040000, 0x05040001, 0x05040002, 0x05040003, 0x05040004, 0x05040005, 0x06010000, 0x06010001,
           0x06010002, 0x06020000, 0x06040041, 0x06040042, 0x06040043, 0x06040047, 0x06060000, 0x06070010, 0x06070012,
           0x06070013, 0x06090011, 0x06090030, 0x06090031, 0x06090032, 0x06090036, 0x060A0023, 0x08000000, 0x08000020,
           0x08000021, 0x08000022, 0x08000023, 0x08000024, 0, 0x80000000, 0xFFFFFFFF)
NUMS = sorted(codec.NUMERIC)
STAGES = ("ul-initiate", "ul-segment", "dl-exp", "dl-initiate", "dl-segment", "dl-last-segment")


def jobs(tier, seed):
    enum = []
    for t in range(len(NUMS)):
        for ln in range(10):
            for seg in range(2):
                enum.append((1, t, ln, seg))
    for pos in range(6):
        for d in range(2):
            enum.append((2, pos, d, 0))
    for c in range(len(DEFINED)):
        for st in range(len(STAGES)):
            enum.append((3, c, st, 0))
    return enum, (250_000 if tier == "quick" else 4_000_000)


def nontrivial(cover):
    return sum(1 for k in cover if k[-1])


# ---------------------------------------------------------------------------
class RealPair:
    """real client + real server on two networks sharing one segment"""

    def __init__(self, ctx, od, entries, node_id):
        self.ctx = ctx
        self.ch = world.make_channel(ctx, swarm=False)
        self.mnet, self.mbus = world.make_network(ctx, self.ch, "master")
        self.net, self.bus = world.make_network(ctx, self.ch, "slave", via_notify=True)
        self.local = canopen.LocalNode(node_id, od)
        self.net.add_node(self.local)
        self.node = canopen.RemoteNode(node_id, canopen.ObjectDictionary())
        self.mnet.add_node(self.node)
        self.entries = {(e.index, e.sub): e for e in entries}
        self.wlog = []
        self.local.add_write_callback(lambda index, subindex, od, data: self.wlog.append((index, subindex, bytes(data))))
        self.local.add_read_callback(self._on_read)
        for e in entries:
            if e.stored is not None:
                self.local.data_store.setdefault(e.index, {})[e.sub] = e.stored[1]
        self.tx = 0x580 + node_id

    def _on_read(self, index, subindex, od):
        e = self.entries.get((index, subindex))
        if e is not None and e.cb is not None:
            return e.cb[0]
        return None

    def store_snapshot(self):
        return {(i, s): bytes(d) for i, subs in self.local.data_store.items() for s, d in subs.items()}


def _wire_aborts(ch, tx, since):
    return [f for f in ch.frames(can_id=tx, since=since) if f.data[0] == 0x80]


def _expect_refusal(ctx, w, what, kind, codes, mux, exc, mark, snap, nlog, key_extra):
    """Common judgement for set-up (i)."""
    aborts = _wire_aborts(w.ch, w.tx, mark)
    if w.bus.rx_errors:
        can_id, data, e = w.bus.rx_errors[0]
        ctx.violation("C06/raised-into-receive-path/%s@%s" % (type(e).__name__, site(e)), "%s: server raised %r" % (what, e))
    if kind.startswith("missing-sub-of-var"):
        c0 = int.from_bytes(aborts[0].data[4:8], "little") if aborts else None
        if exc is None or c0 not in codes:
            ctx.violation("C06/missing-sub-index-of-variable-not-refused",
                          "%s: %s (CiA 301: abort 0x06090011, a VAR object has sub-index 0 only)" % (
                              what, "served without refusal" if exc is None else "refused with 0x%08X for another reason" % c0))
    if exc is None:
        ctx.violation("C06/not-refused/%s" % kind, "%s was not refused (no exception; abort frames on the wire: %s)" % (what, [f.data.hex() for f in aborts]))
    if not isinstance(exc, SdoAbortedError):
        ctx.violation("C06/wrong-exception/%s/%s" % (kind, type(exc).__name__), "%s raised %r instead of SdoAbortedError" % (what, exc))
    if not aborts:
        ctx.violation("C06/no-abort-frame/%s" % kind, "%s: no abort frame on the wire" % what)
    fr = aborts[-1].data if kind != "wrong-length-seg" else aborts[0].data
    fr = aborts[0].data
    code = int.from_bytes(fr[4:8], "little")
    fmux = (fr[1] | fr[2] << 8, fr[3])
    if code not in codes:
        ctx.violation("C06/wrong-abort-code/%s/%08X" % (kind, code), "%s: abort frame %s carries 0x%08X, CiA 301 prescribes %s" % (
            what, fr.hex(), code, "/".join("0x%08X" % c for c in codes)))
    if fmux != mux:
        ctx.violation("C06/wrong-multiplexer-in-abort/%s" % kind, "%s: abort frame %s names %04X:%02X" % (what, fr.hex(), fmux[0], fmux[1]))
    wire_codes = [int.from_bytes(f.data[4:8], "little") for f in aborts]
    if exc.code not in wire_codes:
        ctx.violation("C06/api-code-differs-from-wire/%s" % kind, "%s: wire %s, SdoAbortedError.code 0x%08X" % (what, ["0x%08X" % c for c in wire_codes], exc.code))
    if exc.code != code:
        ctx.observe("a later abort provoked by close() masks the first abort code")
    if w.store_snapshot() != snap:
        ctx.violation("C06/store-changed-by-refused-access/%s" % kind, "%s changed data_store" % what)
    if w.wlog[nlog:]:
        ctx.violation("C06/write-callback-on-refused-write/%s" % kind, "%s: write callbacks saw %r" % (what, w.wlog[nlog:]))
    ctx.probe(kind.split("-seg")[0].split("-exp")[0])


def _dl(ctx, node, index, sub, data, seg):
    """download through download() or - segmented only - through a stream whose size is not declared"""
    if seg and ctx.choice(3, "viastream") == 0:
        def do():
            with node.sdo.open(index, sub, "wb", buffering=(7, 0, 1024)[ctx.choice(3, "sbuf")]) as fp:
                p = 0
                while p < len(data):
                    n = fp.write(data[p:])      # (a raw stream takes at most one segment per call)
                    p += n if n else len(data)
        ctx.probe("refusal-on-closing-segment-of-undeclared-stream")
        return call(do)
    return call(node.sdo.download, index, sub, data, seg)


def _refusal_i(ctx, w, entries, pos, forced=None):
    """Provoke one refusal through the real client API."""
    node = w.node
    kinds = ["read-wo", "write-ro", "missing-index", "missing-sub", "wrong-length", "no-value"]
    kind = forced[0] if forced else kinds[ctx.choice(len(kinds), "rkind")]
    snap = w.store_snapshot()
    nlog = len(w.wlog)
    mark = w.ch.n
    seg = False
    e = None
    if kind == "read-wo":
        c = [x for x in entries if x.access == "wo"]
        if not c:
            return False
        e = c[ctx.choice(len(c), "ent")]
        codes = {WO} | ({NOVAL1, NOVAL2} if e.current() is None else set())
        what = "read of write-only %04X:%02X" % (e.index, e.sub)
        _, exc = call(node.sdo.upload, e.index, e.sub)
        mux = (e.index, e.sub)
    elif kind == "write-ro":
        c = [x for x in entries if x.access in ("ro", "const")]
        if not c:
            return False
        e = c[ctx.choice(len(c), "ent")]
        w_ = codec.width_bytes(e.dtype)
        right = ctx.choice(3, "rightlen") != 0
        ln = w_ if (w_ and right) else ctx.choice(12, "len")
        data = world.pattern(ln, 3)
        seg = ln > 4 or ln == 0 or ctx.choice(2, "seg") == 1
        codes = {RO}
        if e.dtype in codec.NUMERIC and ln != w_:
            codes |= {LEN, LEN_HI if ln > w_ else LEN_LO}
        what = "write of %d bytes (%s) to %s %04X:%02X" % (ln, "segmented" if seg else "expedited", e.access, e.index, e.sub)
        _, exc = _dl(ctx, node, e.index, e.sub, data, seg)
        mux = (e.index, e.sub)
        kind = "write-ro-seg" if seg else "write-ro-exp"
    elif kind == "missing-index":
        used = set(x.index for x in entries)
        index = ctx.choice(0x10000, "idx")
        while index in used:
            index = (index + 1) & 0xFFFF
        sub = ctx.choice(4, "sub") and ctx.choice(256, "subv")
        rd = ctx.choice(2, "rd") == 0
        codes = {NOOBJ}
        mux = (index, sub)
        if rd:
            what = "read of missing object %04X:%02X" % mux
            _, exc = call(node.sdo.upload, index, sub)
        else:
            ln = ctx.choice(10, "len")
            seg = ln > 4 or ln == 0 or ctx.choice(2, "seg") == 1
            what = "write of %d bytes (%s) to missing object %04X:%02X" % (ln, "segmented" if seg else "expedited", index, sub)
            _, exc = _dl(ctx, node, index, sub, world.pattern(ln, 5), seg)
        kind = "missing-index" + ("" if rd else ("-seg" if seg else "-exp"))
    elif kind == "missing-sub":
        recs = {}
        for x in entries:
            recs.setdefault(x.index, []).append(x)
        idxs = sorted(i for i, xs in recs.items() if xs[0].kind in ("record", "var"))
        if not idxs:
            return False
        index = idxs[ctx.choice(len(idxs), "ent")]
        have = set(x.sub for x in recs[index])
        okind = recs[index][0].kind
        sub = 1 + ctx.choice(255, "subv")
        while sub in have:
            sub = sub % 255 + 1
        rd = ctx.choice(2, "rd") == 0
        codes = {NOSUB}
        mux = (index, sub)
        if rd:
            what = "read of missing sub-index %04X:%02X of a %s" % (index, sub, okind)
            _, exc = call(node.sdo.upload, index, sub)
        else:
            ln = 1 + ctx.choice(8, "len")
            seg = ln > 4 or ctx.choice(2, "seg") == 1
            what = "write of %d bytes (%s) to missing sub-index %04X:%02X of a %s" % (ln, "segmented" if seg else "expedited", index, sub, okind)
            _, exc = call(node.sdo.download, index, sub, world.pattern(ln, 5), seg)
        kind = "missing-sub-of-%s" % okind + ("" if rd else ("-seg" if seg else "-exp"))
    elif kind == "wrong-length":
        if forced:
            e, ln, seg = forced[1], forced[2], forced[3]
        else:
            c = [x for x in entries if x.dtype in codec.NUMERIC and x.writable()]
            if not c:
                return False
            e = c[ctx.choice(len(c), "ent")]
            ln = ctx.choice(10, "len")
            seg = ln > 4 or ln == 0 or ctx.choice(2, "seg") == 1
        w_ = codec.width_bytes(e.dtype)
        if ln == w_:
            return False
        if ln == 0 or ln > 4:
            seg = True
        codes = {LEN, LEN_HI if ln > w_ else LEN_LO}
        what = "write of %d bytes (%s) to %s %04X:%02X (%d bytes wide)" % (ln, "segmented" if seg else "expedited", codec.NAMES[e.dtype], e.index, e.sub, w_)
        _, exc = _dl(ctx, node, e.index, e.sub, world.pattern(ln, 9), seg)
        mux = (e.index, e.sub)
        kind = "wrong-length-seg" if seg else "wrong-length-exp"
    else:
        c = [x for x in entries if x.current() is None and x.readable()]
        if not c:
            return False
        e = c[ctx.choice(len(c), "ent")]
        codes = {NOVAL1, NOVAL2}
        what = "read of %04X:%02X which has no value" % (e.index, e.sub)
        _, exc = call(node.sdo.upload, e.index, e.sub)
        mux = (e.index, e.sub)
    ctx.cover(("i", kind, e.dtype if e else None, e.access if e else None, min(pos, 2), True))
    _expect_refusal(ctx, w, what, kind, codes, mux, exc, mark, snap, nlog, None)
    return True


def _valid_i(ctx, w, entries, after_refusal):
    node = w.node
    c = [x for x in entries if x.access == "rw"]
    if not c:
        return
    e = c[ctx.choice(len(c), "ent")]
    val = srvside.gen_value(ctx, e.dtype, 40)
    data = val[1]
    seg = len(data) > 4 or len(data) == 0 or ctx.choice(2, "seg") == 1
    nlog = len(w.wlog)
    what = "valid write of %d bytes to %04X:%02X%s" % (len(data), e.index, e.sub, " after a refusal" if after_refusal else "")
    _, exc = call(node.sdo.download, e.index, e.sub, data, seg)
    if exc is not None:
        ctx.violation("C06/valid-transfer-failed/%s@%s" % (type(exc).__name__, site(exc)), "%s raised %r" % (what, exc))
    e.stored = (val[0], data)
    if w.local.data_store.get(e.index, {}).get(e.sub) != data or w.wlog[nlog:] != [(e.index, e.sub, data)]:
        ctx.violation("C06/valid-write-not-stored", "%s: data_store %r, callbacks %r" % (what, w.local.data_store.get(e.index, {}).get(e.sub), w.wlog[nlog:]))
    if e.cb is None and len(data) > 0:
        res, exc = call(node.sdo.upload, e.index, e.sub)
        if exc is not None or need_bytes(ctx, "C06", res, what + " then read back") != data:
            ctx.violation("C06/valid-read-back-failed", "%s then read back: %r / %r" % (what, exc, res))
    if after_refusal:
        ctx.probe("valid-after-refusal")


def _setup_i(ctx, forced=None):
    node_id = 1 + ctx.choice(127, "node")
    od, entries = srvside.gen_od(ctx, 40)
    fe = None
    if forced is not None:
        t, ln, seg = forced
        fe = srvside.Entry()
        fe.index, fe.sub, fe.dtype, fe.access = 0x2F01, 0, NUMS[t], "rw"
        fe.default = fe.value = fe.cb = None
        fe.stored = srvside.gen_value(ctx, fe.dtype)
        fe.kind, fe.name = "var", "Forced"
        if 0x2F01 in od:
            del od[0x2F01]
            entries = [x for x in entries if x.index != 0x2F01]
        od.add_object(srvside._odvar(fe, "Forced"))
        entries.append(fe)
    w = RealPair(ctx, od, entries, node_id)
    n = 1 + ctx.choice(10, "nops")
    did_forced = forced is None
    last_refused = False
    for k in range(n):
        with ctx.span("op"):
            if not did_forced and (k == n - 1 or ctx.choice(3, "now") == 0):
                _refusal_i(ctx, w, entries, k, ("wrong-length", fe, forced[1], bool(forced[2])))
                did_forced = True
                last_refused = True
            elif ctx.choice(3, "valid") == 0:
                _valid_i(ctx, w, entries, last_refused)
                last_refused = False
            else:
                last_refused = _refusal_i(ctx, w, entries, k) or last_refused
    _valid_i(ctx, w, entries, last_refused)


# ---------------------------------------------------------------------------
def _tog(cl):
    if cl.state is None:
        raise Nonconformance("transfer-ended-by-server", "the server had already ended (aborted) a valid transfer")
    return cl.state["toggle"]


def _setup_ii(ctx, fpos=None, fdir=None):
    node_id = 1 + ctx.choice(127, "node")
    od, entries = srvside.gen_od(ctx, 64)
    # make sure a long readable and a long writable string entry exist
    for idx, acc in ((0x2F02, "ro"), (0x2F03, "rw")):
        e = srvside.Entry()
        e.index, e.sub, e.dtype, e.access = idx, 0, codec.DOMAIN, acc
        raw = world.pattern(20 + ctx.choice(40, "len"), idx & 0xFF)
        e.default = (raw, raw)
        e.value = e.cb = e.stored = None
        e.kind, e.name = "var", "Long%04X" % idx
        if idx in od:
            del od[idx]
            entries = [x for x in entries if x.index != idx]
        od.add_object(srvside._odvar(e, e.name))
        entries.append(e)
    w = srvside.ServerWorld(ctx, od, entries, node_id)
    cl = w.client
    nops = 1 + ctx.choice(6, "nops")
    for k in range(nops):
        with ctx.span("op"):
            first = k == 0 and fpos is not None
            op = ctx.choice(5, "op") if not first else (0 if fdir == 0 else 1)
            snap = w.store_snapshot()
            nlog = len(w.wlog)
            try:
                if op == 0:
                    c = [x for x in entries if x.readable() and x.current() is not None and len(x.current()) > 7]
                    e = c[ctx.choice(len(c), "ent")]
                    nseg = (len(e.current()) + 6) // 7
                    pos = (fpos if first else ctx.choice(nseg, "pos")) % nseg
                    what = "upload %04X:%02X (%d bytes), wrong toggle at segment %d" % (e.index, e.sub, len(e.current()), pos)
                    r = cl.init_upload(e.index, e.sub)
                    for _ in range(pos):
                        cl.upload_segment()
                    t = _tog(cl) ^ 1
                    rs = cl.exchange(bytes([0x60 | t << 4, 0, 0, 0, 0, 0, 0, 0]))
                    cl.state = None
                    _judge_frame_refusal(ctx, w, what, "toggle-up", rs, {TOGGLE}, (e.index, e.sub), snap, nlog, pos)
                elif op == 1:
                    c = [x for x in entries if x.access == "rw" and x.dtype in (codec.DOMAIN, codec.OCTET_STRING)]
                    e = c[ctx.choice(len(c), "ent")]
                    ln = 8 + ctx.choice(40, "len")
                    data = world.pattern(ln, 11)
                    nseg = (ln + 6) // 7
                    pos = (fpos if first else ctx.choice(nseg, "pos")) % nseg
                    what = "download %04X:%02X (%d bytes), wrong toggle at segment %d of %d" % (e.index, e.sub, ln, pos, nseg)
                    cl.init_download(e.index, e.sub, data, "seg" if ctx.choice(2, "sz") else "seg-nosize")
                    for j in range(pos):
                        cl.download_segment(data[7 * j:7 * j + 7], False)
                    last = pos == nseg - 1
                    t = _tog(cl) ^ 1
                    chunk = data[7 * pos:7 * pos + 7]
                    n = 7 - len(chunk)
                    rs = cl.exchange(bytes([t << 4 | n << 1 | (1 if last else 0)]) + chunk + bytes(n))
                    cl.state = None
                    _judge_frame_refusal(ctx, w, what, "toggle-down" + ("-last" if last else ""), rs, {TOGGLE}, (e.index, e.sub), snap, nlog, pos)
                elif op == 4:
                    # a segmented download to a writable entry, an upload request for a read-only / constant entry in the
                    # middle of it (which moves the server's notion of "the object of the transfer"), then the last segment:
                    # whatever the server makes of that, the read-only entry is never written
                    c = [x for x in entries if x.access == "rw" and x.dtype in (codec.DOMAIN, codec.OCTET_STRING)]
                    ros = [x for x in entries if x.access in ("ro", "const") and x.readable() and x.current() is not None]
                    if not ros:
                        continue
                    e = c[ctx.choice(len(c), "ent")]
                    b = ros[ctx.choice(len(ros), "roent")]
                    ln = 15 + ctx.choice(20, "len")
                    data = world.pattern(ln, 13)
                    nseg = (ln + 6) // 7
                    what = "download %04X:%02X (%d bytes) with an upload request for the %s entry %04X:%02X before its last segment" % (
                        e.index, e.sub, ln, b.access, b.index, b.sub)
                    cl.init_download(e.index, e.sub, data, "seg" if ctx.choice(2, "sz") else "seg-nosize")
                    for j in range(nseg - 1):
                        cl.download_segment(data[7 * j:7 * j + 7], False)
                    t = _tog(cl)
                    cl.exchange(bytes([0x40, b.index & 0xFF, b.index >> 8, b.sub, 0, 0, 0, 0]))
                    chunk = data[7 * (nseg - 1):]
                    n = 7 - len(chunk)
                    cl.exchange(bytes([t << 4 | n << 1 | 1]) + chunk + bytes(n))
                    cl.state = None
                    after = w.store_snapshot()
                    if after.get((b.index, b.sub)) != snap.get((b.index, b.sub)):
                        ctx.violation("C06/store-changed-by-refused-access/interleaved-upload-of-ro", "%s: the %s entry now holds %r" % (what, b.access, after.get((b.index, b.sub))))
                    told = [(i, s_, len(d)) for i, s_, d in w.wlog[nlog:] if (i, s_) == (b.index, b.sub)]
                    if told:
                        ctx.violation("C06/write-callback-on-refused-write/interleaved-upload-of-ro", "%s: write callbacks were told %r" % (what, told))
                    if w.bus.rx_errors:
                        can_id, data_, x = w.bus.rx_errors[0]
                        ctx.violation("C06/raised-into-receive-path/%s@%s" % (type(x).__name__, site(x)), "%s: server raised %r" % (what, x))
                    ctx.probe("download-interleaved-with-upload-of-ro")
                    ctx.cover(("ii", "interleaved-upload-of-ro", b.access, True))
                elif op == 2:
                    # undefined / unsupported command specifier outside any transfer
                    fr = bytes([(0xE0, 0xC0, 0xC2, 0xE1, 0xFF)[ctx.choice(5, "cmd")], 0x00, 0x20, 0, 0, 0, 0, 0])
                    what = "command %s outside a transfer" % fr.hex()
                    rs = cl.exchange(fr)
                    cl.state = None
                    _judge_frame_refusal(ctx, w, what, "unknown-command", rs, {CMD}, None, snap, nlog, 0)
                else:
                    # undefined / unsupported command inside a segmented upload
                    c = [x for x in entries if x.readable() and x.current() is not None and len(x.current()) > 14]
                    e = c[ctx.choice(len(c), "ent")]
                    cl.init_upload(e.index, e.sub)
                    cl.upload_segment()
                    fr = bytes([(0xE0, 0xC0, 0xFF)[ctx.choice(3, "cmd")], e.index & 0xFF, e.index >> 8, e.sub, 0, 0, 0, 0])
                    what = "command %s inside the upload of %04X:%02X" % (fr.hex(), e.index, e.sub)
                    rs = cl.exchange(fr)
                    cl.state = None
                    _judge_frame_refusal(ctx, w, what, "unknown-command-inside", rs, {CMD}, (e.index, e.sub), snap, nlog, 1)
            except Nonconformance as x:
                ctx.violation("C06/nonconformant-response/%s" % x.reason, "%s %s" % (x.reason, x.detail))
    # a valid transfer afterwards
    e = w.entries[(0x2F02, 0)]
    try:
        res = cl.upload(0x2F02, 0)
    except Nonconformance as x:
        ctx.violation("C06/valid-transfer-failed/%s" % x.reason, "upload after frame-level refusals: %s" % x.detail)
    if res[0] != "data" or res[1] != e.current():
        ctx.violation("C06/valid-transfer-failed/after-frame-refusal", "upload after frame-level refusals returned %r" % (res[:2],))
    ctx.probe("valid-after-refusal")


def _judge_frame_refusal(ctx, w, what, kind, rs, codes, mux, snap, nlog, pos):
    ctx.cover(("ii", kind, min(pos, 6), True))
    if w.bus.rx_errors:
        can_id, data, e = w.bus.rx_errors[0]
        ctx.violation("C06/raised-into-receive-path/%s@%s" % (type(e).__name__, site(e)), "%s: server raised %r" % (what, e))
    if len(rs) != 1 or len(rs[0]) != 8 or rs[0][0] != 0x80:
        ctx.violation("C06/not-refused/%s" % kind, "%s answered by %s instead of one abort frame" % (what, [r.hex() for r in rs]))
    fr = rs[0]
    code = int.from_bytes(fr[4:8], "little")
    if code not in codes:
        ctx.violation("C06/wrong-abort-code/%s/%08X" % (kind, code), "%s: abort %s carries 0x%08X, expected %s" % (what, fr.hex(), code, "/".join("0x%08X" % c for c in codes)))
    if mux is not None and (fr[1] | fr[2] << 8, fr[3]) != mux:
        ctx.violation("C06/wrong-multiplexer-in-abort/%s" % kind, "%s: abort %s does not name %04X:%02X" % (what, fr.hex(), mux[0], mux[1]))
    if w.store_snapshot() != snap:
        ctx.violation("C06/store-changed-by-refused-access/%s" % kind, "%s changed data_store" % what)
    if w.wlog[nlog:]:
        ctx.violation("C06/write-callback-on-refused-write/%s" % kind, "%s: write callbacks saw %r" % (what, [(i, s, len(d)) for i, s, d in w.wlog[nlog:]]))
    ctx.probe(kind.split("-inside")[0].split("-last")[0])


# ---------------------------------------------------------------------------
def _setup_iii(ctx, fcode=None, fstage=None):
    w = world.ClientWorld(ctx, swarm=False)
    node, srv = w.node, w.srv
    n = 1 + ctx.choice(4, "nops")
    for k in range(n):
        with ctx.span("op"):
            first = k == 0 and fcode is not None
            if first:
                code = DEFINED[fcode]
                stage = STAGES[fstage]
            else:
                code = DEFINED[ctx.choice(len(DEFINED), "code")] if ctx.choice(3, "rnd") else ctx.choice(1 << 32, "codev")
                stage = STAGES[ctx.choice(len(STAGES), "stage")]
            index, sub = ctx.choice(0x10000, "idx"), ctx.choice(256, "sub")
            srv.read_hook = srv.write_hook = None
            srv.abort_plan = None
            nab = len(srv.aborts_tx)
            what = "server answers %s of %04X:%02X with abort 0x%08X" % (stage, index, sub, code)
            if stage == "ul-initiate":
                srv.read_hook = lambda i, s: code
                _, exc = call(node.sdo.upload, index, sub)
            elif stage == "ul-segment":
                srv.store[(index, sub)] = world.pattern(30, 1)
                srv.abort_plan = ("seg", ctx.choice(4, "k"), code)
                _, exc = call(node.sdo.upload, index, sub)
            elif stage == "dl-exp":
                srv.write_hook = lambda i, s, d: code
                _, exc = call(node.sdo.download, index, sub, world.pattern(1 + ctx.choice(4, "len"), 2))
            elif stage == "dl-initiate":
                srv.abort_plan = ("init", 0, code)
                _, exc = call(node.sdo.download, index, sub, world.pattern(20, 2), True)
            elif stage == "dl-segment":
                srv.abort_plan = ("seg", 1 + ctx.choice(2, "k"), code)
                _, exc = call(node.sdo.download, index, sub, world.pattern(30, 2), True)
            else:
                srv.write_hook = lambda i, s, d: code
                _, exc = call(node.sdo.download, index, sub, world.pattern(9 + ctx.choice(20, "len"), 2), True)
            srv.read_hook = srv.write_hook = None
            srv.abort_plan = None
            ctx.cover(("iii", stage, "defined" if code in DEFINED else "random", code >> 31, True))
            ctx.probe("client-decoding")
            sent = srv.aborts_tx[-1] if srv.aborts_tx else None
            if sent is None or (sent & 0xFFFFFFFF) != code:
                # (write_hook cannot signal code 0 directly; encoded above)
                pass
            if not isinstance(exc, SdoAbortedError):
                ctx.violation("C06/abort-not-raised/%s" % stage, "%s: outcome %r" % (what, exc))
            received = srv.aborts_tx[nab:]
            if exc.code != code and exc.code in received:
                # the stream's close() went on after the abort and provoked a
                # second one: the API exposes a code it received, only not the
                # first (two readings of "the received code": weaker enforced)
                ctx.observe("a later abort provoked by close() masks the first abort code")
            elif exc.code != code:
                ctx.violation("C06/client-decodes-abort-code-wrongly/%s" % ("bit31" if code >> 31 else "plain"),
                              "%s: SdoAbortedError.code is %r (0x%X)" % (what, exc.code, exc.code & 0xFFFFFFFFFFFF))
            ctx.drain()
    # and the client still works
    srv.store[(0x2000, 0)] = b"\x01\x02\x03\x04\x05"
    res, exc = call(node.sdo.upload, 0x2000, 0)
    if exc is not None or need_bytes(ctx, "C06", res, "upload after aborts") != b"\x01\x02\x03\x04\x05":
        ctx.violation("C06/valid-transfer-failed/after-abort-decoding", "upload after aborts: %r %r" % (exc, res))


def scenario(ctx):
    mode = ctx.choice(4, "mode")
    a = ctx.choice(64, "a")
    b = ctx.choice(16, "b")
    c = ctx.choice(4, "c")
    if mode == 0:
        m = ctx.choice(3, "setup")
        if m == 0:
            _setup_i(ctx)
        elif m == 1:
            _setup_ii(ctx)
        else:
            _setup_iii(ctx)
    elif mode == 1:
        _setup_i(ctx, (a % len(NUMS), b % 10, c % 2))
    elif mode == 2:
        _setup_ii(ctx, a % 6, b % 2)
    else:
        _setup_iii(ctx, a % len(DEFINED), b % len(STAGES))
