"""C09 - Saving a PDO configuration follows the safe procedure and reads back identically.

System: real RemoteNode + PdoMap.save/read, PdoMaps, SDO client against a
StrictPdoDevice (RefSdoServer whose store enforces the CiA 301 PDO
configuration rules, refuses out-of-order writes and logs the ordered writes).
A fresh RemoteNode on a fresh Network reads the configuration back.
"""
import canopen
from canopen import objectdictionary as odm

from simcan import world
from simcan.core import MS, SEC, US
from canopen.sdo.exceptions import SdoError
from simcan.models.pdo_device import StrictPdoDevice, PdoState
from simcan.util import call, site

ID = "C09"
LEVEL = "exploration"
BUDGET = {"quick": 35, "thorough": 420}
RULE = ("one run = 1..3 PDOs (RPDO/TPDO, numbers 1..512) with a generated target configuration, a prior device state and a configuration "
        "source (attributes, read from the live device, dictionary values/defaults, load_configuration), saved to a strict device and read "
        "back by a fresh node; case key = (kind, source, prior state, enabled, rtr, transmission-type class, #mapped, optional sub-entries "
        "present, COB-ID width); every key is an executed save+read-back")
EXHAUSTIVE_CORE = ("{RPDO, TPDO} x {enabled, disabled} x {RTR allowed, not} x all 256 transmission types x {factory, enabled-with-other-mapping} prior state "
                   "with 2 mapped objects (attributes source); the rest is seeded")
ASSUMPTIONS = [
    "the strict device refuses (abort) a mapping entry while count != 0 or the PDO is valid, a count while valid, a COB-ID change of bits 0..29 while "
    "valid and staying valid, inhibit time / SYNC start value while valid; setting bit 31 together with a new id in one write is accepted",
    "COB-ID word = id | bit31 (invalid) | bit30 (no RTR); bit 29 (frame format) is not part of the statement and is not judged",
    "optional comm sub-entries (3, 5, 6) are only set as attributes where the dictionary has them",
]
COMPONENTS = {
    "real": ["canopen.pdo.base.PdoMap.save/read/subscribe/add_variable/clear", "PdoMaps/PdoBase/TPDO/RPDO/PDO", "RemoteNode.load_configuration", "SDO client + typed accessors"],
    "stub": ["CAN backend (SimBus)", "can.Notifier", "time/queue in canopen.sdo.client", "device (StrictPdoDevice on RefSdoServer)"],
}
PROBES = ["prior-enabled", "source-attrs", "source-device", "source-od", "source-load_configuration", "cob-29bit", "no-rtr", "disabled", "event-driven",
          "opt-sub3", "opt-sub5", "opt-sub6", "mapped-0", "mapped-8", "pdo-number>4", "saved-twice", "mapping-parameter-declared-as-array"]

NUMBERS = (1, 2, 3, 4, 5, 64, 511, 512)
MAPPABLE = [  # (index, sub, dtype, bits)
    (0x2000, 0, odm.UNSIGNED8, 8), (0x2001, 0, odm.INTEGER8, 8), (0x2002, 0, odm.UNSIGNED16, 16), (0x2003, 0, odm.INTEGER16, 16),
    (0x2004, 0, odm.UNSIGNED32, 32), (0x2005, 0, odm.INTEGER32, 32), (0x2006, 0, odm.UNSIGNED64, 64), (0x2007, 0, odm.BOOLEAN, 8),
    (0x2008, 0, odm.REAL32, 32), (0x2100, 1, odm.UNSIGNED8, 8), (0x2100, 2, odm.UNSIGNED16, 16), (0x2100, 3, odm.INTEGER32, 32),
    (0x6040, 0, odm.UNSIGNED16, 16), (0x6041, 0, odm.UNSIGNED16, 16), (0x6060, 0, odm.INTEGER8, 8),
]
SOURCES = ("attrs", "device", "od", "load_configuration")


class _LoseOne:
    """Transport wrapper: the k-th frame the device sends to the fresh network is lost."""

    def __init__(self, inner, k, dst_name="fresh"):
        self.inner = inner
        self.k = k
        self.dst_name = dst_name
        self.n = 0
        self.fired = False
        self.lat_lo, self.lat_hi = inner.lat_lo, inner.lat_hi

    def latency(self):
        return self.inner.latency()

    def route(self, frame, dst):
        if frame.src == "server" and dst.name == self.dst_name:
            i = self.n
            self.n += 1
            if i == self.k:
                self.fired = True
                return []
        return self.inner.route(frame, dst)


def jobs(tier, seed):
    enum = []
    for kind in range(2):
        for en in range(2):
            for rtr in range(2):
                for prior in range(2):
                    for tt in range(256):
                        enum.append((1, kind, en, rtr, prior, tt))
    return enum, (250_000 if tier == "quick" else 4_000_000)


def build_od(pdos):
    """pdos: list of dicts with kind, number, subs (set of optional subs), od_values"""
    od = canopen.ObjectDictionary()
    for (index, sub, dt, bits) in MAPPABLE:
        if index == 0x2100:
            if 0x2100 not in od:
                od.add_object(world.record("Rec", 0x2100, [world.var("n", 0x2100, 0, odm.UNSIGNED8, "ro", default=3)]))
            od[0x2100].add_member(world.var("m%d" % sub, 0x2100, sub, dt))
        else:
            od.add_object(world.var("V%04X" % index, index, 0, dt))
    for p in pdos:
        st = PdoState(p["kind"], p["number"])
        ov = p.get("od_values", {})

        def v(name, index, sub, dt, key):
            x = world.var(name, index, sub, dt, "rw")
            dv = ov.get(key)
            if dv is not None:
                x.default, x.value = dv
            return x
        members = [world.var("n", st.com, 0, odm.UNSIGNED8, "ro", default=6),
                   v("COB-ID", st.com, 1, odm.UNSIGNED32, ("c", 1)),
                   v("Type", st.com, 2, odm.UNSIGNED8, ("c", 2))]
        if 3 in p["subs"]:
            members.append(v("Inhibit", st.com, 3, odm.UNSIGNED16, ("c", 3)))
        if 5 in p["subs"]:
            members.append(v("Event", st.com, 5, odm.UNSIGNED16, ("c", 5)))
        if 6 in p["subs"]:
            members.append(v("SyncStart", st.com, 6, odm.UNSIGNED8, ("c", 6)))
        od.add_object(world.record("%s%d comm" % (p["kind"], p["number"]), st.com, members))
        mm = [v("n", st.map, 0, odm.UNSIGNED8, ("m", 0))]
        for k in range(1, 9):
            mm.append(v("e%d" % k, st.map, k, odm.UNSIGNED32, ("m", k)))
        # the mapping parameter is a RECORD in most dictionaries; CiA 301 declares it as an ARRAY, and some EDS files do too
        od.add_object((world.array if p.get("as_array") else world.record)("%s%d map" % (p["kind"], p["number"]), st.map, mm))
    return od


def _gen_mapping(ctx, maxn=8):
    n = ctx.choice(maxn + 1, "nmap")
    out = []
    bits = 0
    for _ in range(n):
        index, sub, dt, b = MAPPABLE[ctx.choice(len(MAPPABLE), "mobj")]
        if bits + b > 64:
            # pick the smallest that still fits, else stop
            fit = [m for m in MAPPABLE if bits + m[3] <= 64]
            if not fit:
                break
            index, sub, dt, b = fit[ctx.choice(len(fit), "mfit")]
        out.append((index, sub, b))
        bits += b
    return out


def _gen_cobid(ctx):
    k = ctx.choice(4, "cobsrc")
    if k == 0:
        return 0x181 + ctx.choice(0x67E, "cob11")
    if k == 1:
        return (0x180, 0x7FF, 0x001, 0x200, 0x57F)[ctx.choice(5, "cobb")] | 1
    if k == 2:
        return 0x800 + ctx.choice(0x1FFFF7FF, "cob29")
    return (0x800, 0x1FFFFFFF, 0x10000181, 0x00012345)[ctx.choice(4, "cob29b")]


def _word(m):
    return m[0] << 16 | m[1] << 8 | m[2]


def scenario(ctx):
    mode = ctx.choice(2, "mode")
    f_kind = ctx.choice(2, "kind")
    f_en = ctx.choice(2, "en")
    f_rtr = ctx.choice(2, "rtr")
    f_prior = ctx.choice(2, "prior")
    f_tt = ctx.choice(256, "tt")
    npdo = 1 if mode == 1 else 1 + ctx.choice(3, "npdo")
    source = "attrs" if mode == 1 else SOURCES[ctx.choice(4, "source")]
    pdos = []
    used = set()
    for i in range(npdo):
        kind = ("rpdo", "tpdo")[f_kind if i == 0 else ctx.choice(2, "kind_i")]
        number = NUMBERS[ctx.choice(len(NUMBERS), "number")]
        if (kind, number) in used:
            continue
        used.add((kind, number))
        subs = set(s for s in (3, 5, 6) if ctx.choice(2, "opt%d" % s))
        target = {
            "cob_id": _gen_cobid(ctx),
            "enabled": bool(f_en) if (mode == 1 and i == 0) else ctx.choice(3, "enabled") != 0,
            "rtr": bool(f_rtr) if (mode == 1 and i == 0) else ctx.choice(3, "rtrallowed") != 0,
            "type": f_tt if (mode == 1 and i == 0) else (0, 1, 240, 252, 253, 254, 255)[ctx.choice(7, "ttype")] if ctx.choice(2, "ttb") else ctx.choice(256, "ttv"),
            "map": [(0x2002, 0, 16), (0x2004, 0, 32)] if (mode == 1 and i == 0) else _gen_mapping(ctx),
            3: ctx.choice(65536, "inh") if ctx.choice(2, "inhz") else 0,
            5: ctx.choice(65536, "evt") if ctx.choice(2, "evtz") else 0,
            6: ctx.choice(241, "sync") if ctx.choice(2, "syncz") else 0,
        }
        prior = ("factory", "enabled")[f_prior if (mode == 1 and i == 0) else ctx.choice(2, "prior_i")]
        p = {"kind": kind, "number": number, "subs": subs, "target": target, "prior": prior}
        if source in ("od", "load_configuration"):
            # dictionary carries the target: ParameterValue (DCF) and/or DefaultValue
            ov = {}

            def dv(key, val):
                k = ctx.choice(3, "dvsrc")
                other = (val ^ 0x5) if key != ("m", 0) else (val + 1) % 9
                if key == ("c", 2):
                    other = (val + 7) % 256
                if k == 0:
                    ov[key] = (val, None)           # default only
                elif k == 1:
                    ov[key] = (other, val)          # value overrides default
                else:
                    ov[key] = (None if key not in (("c", 1), ("c", 2), ("m", 0)) else other, val)
            word = target["cob_id"] | (0 if target["enabled"] else 1 << 31) | (0 if target["rtr"] else 1 << 30)
            dv(("c", 1), word)
            dv(("c", 2), target["type"])
            for s in (3, 5, 6):
                if s in subs:
                    dv(("c", s), target[s])
            dv(("m", 0), len(target["map"]))
            for k in range(1, 9):
                dv(("m", k), _word(target["map"][k - 1]) if k <= len(target["map"]) else 0)
            p["od_values"] = ov
        p["as_array"] = ctx.choice(3, "map-object-is-array") == 1
        if p["as_array"]:
            ctx.probe("mapping-parameter-declared-as-array")
        pdos.append(p)
    od = build_od(pdos)
    w = world.ClientWorld(ctx, od=od)
    node, srv = w.node, w.srv
    dev = StrictPdoDevice(srv, {(i, s): b for i, s, dt, b in MAPPABLE})
    for (index, sub, dt, bits) in MAPPABLE:
        srv.store[(index, sub)] = bytes(max(1, bits // 8))
    srv.store[(0x2100, 0)] = b"\x03"
    states = []
    for p in pdos:
        st = PdoState(p["kind"], p["number"])
        for s in p["subs"]:
            st.subs[s] = (1 if s == 6 else 2, ctx.choice(200, "prior_sub"))
        st.subs[2] = (1, ctx.choice(256, "prior_type"))
        if p["prior"] == "enabled":
            ctx.probe("prior-enabled")
            pm = _gen_mapping(ctx, 4) or [(0x2000, 0, 8)]
            for k, m in enumerate(pm):
                st.entries[k] = _word(m)
            st.count = len(pm)
            st.cob_word = (0x181 + ctx.choice(0x600, "prior_cob")) | (ctx.choice(2, "prior_rtr") << 30)
        else:
            st.cob_word = 0x80000000 | (0x181 + ctx.choice(0x600, "prior_cob"))
        dev.add_pdo(st)
        p["st"] = st
        p["prior_type"] = st.subs[2][1]
        p["prior_subs"] = {s: st.subs[s][1] for s in p["subs"]}
        p["prior_word"] = st.cob_word
        p["prior_map"] = [((e >> 16), (e >> 8) & 0xFF, e & 0xFF) for e in st.entries[:st.count]]
    ctx.probe("source-" + source)

    # ---- establish the configuration in the node object
    def pmap(p, n=node):
        return (n.rpdo if p["kind"] == "rpdo" else n.tpdo)[p["number"]]
    expect = {}
    for p in pdos:
        t = p["target"]
        m = pmap(p)
        key = (p["kind"], p["number"])
        if source == "attrs":
            m.cob_id = t["cob_id"]
            m.enabled = t["enabled"]
            m.rtr_allowed = t["rtr"]
            set_type = ctx.choice(8, "settype") != 0
            if set_type:
                m.trans_type = t["type"]
            for s, attr in ((3, "inhibit_time"), (5, "event_timer"), (6, "sync_start_value")):
                if s in p["subs"] and ctx.choice(2, "set%d" % s):
                    setattr(m, attr, t[s])
            m.clear()
            for (i, s, b) in t["map"]:
                if ctx.choice(3, "explicitlen") == 0:
                    m.add_variable(i, s, b)
                else:
                    m.add_variable(i, s)
            expect[key] = {"cob_id": t["cob_id"], "enabled": t["enabled"], "rtr": t["rtr"],
                           "type": t["type"] if set_type else p["prior_type"], "map": list(t["map"]),
                           "subs": {s: (getattr(m, a) if getattr(m, a) is not None else p["prior_subs"][s])
                                    for s, a in ((3, "inhibit_time"), (5, "event_timer"), (6, "sync_start_value")) if s in p["subs"]}}
        elif source == "device":
            _, exc = call(m.read)
            if exc is not None:
                ctx.violation("C09/read-raised/%s@%s" % (type(exc).__name__, site(exc)), "read() of %s%d from the device raised %r" % (p["kind"], p["number"], exc))
            pw = p["prior_word"]
            expect[key] = {"cob_id": pw & 0x1FFFFFFF, "enabled": not (pw >> 31), "rtr": not ((pw >> 30) & 1), "type": p["prior_type"],
                           "map": list(p["prior_map"]), "subs": dict(p["prior_subs"])}
            # optionally change something before saving
            if ctx.choice(2, "tweak"):
                m.cob_id = t["cob_id"]
                m.enabled = t["enabled"]
                m.rtr_allowed = t["rtr"]
                expect[key].update(cob_id=t["cob_id"], enabled=t["enabled"], rtr=t["rtr"])
            if ctx.choice(2, "tweakmap"):
                m.clear()
                for (i, s, b) in t["map"]:
                    m.add_variable(i, s, b)
                expect[key]["map"] = list(t["map"])
            # read() only fetches the optional entries for event-driven types;
            # whatever attribute is set afterwards will be written
            for s, a in ((3, "inhibit_time"), (5, "event_timer"), (6, "sync_start_value")):
                if s in p["subs"] and getattr(m, a) is not None:
                    expect[key]["subs"][s] = getattr(m, a)
        else:
            expect[key] = {"cob_id": t["cob_id"], "enabled": t["enabled"], "rtr": t["rtr"], "type": t["type"], "map": list(t["map"]),
                           "subs": {s: (t[s] if t["type"] >= 254 else p["prior_subs"][s]) for s in p["subs"]}}
            if source == "od":
                _, exc = call(m.read, True)
                if exc is not None:
                    ctx.violation("C09/read-raised/%s@%s" % (type(exc).__name__, site(exc)), "read(from_od=True) of %s%d raised %r" % (p["kind"], p["number"], exc))
    def save_and_judge(second):
        # ---- save
        mark = len(dev.log)
        if source == "load_configuration" and not second:
            _, exc = call(node.load_configuration)
        elif ctx.choice(3, "saveall") == 0:
            _, exc = call(node.pdo.save)
        else:
            exc = None
            for p in pdos:
                _, exc = call(pmap(p).save)
                if exc is not None:
                    break
        if dev.refused:
            r = dev.refused[0]
            ctx.violation("C09/out-of-order-write-refused", "save() provoked a refusal by the strict device: write %04X:%02X <- 0x%X refused (0x%08X): %s; writes so far: %s" % (
                r[0], r[1], r[2], r[3], r[4], ["%04X:%02X<-%X" % x for x in dev.log[mark:]][-8:]))
        if exc is not None:
            ctx.violation("C09/save-raised/%s@%s" % (type(exc).__name__, site(exc)), "save() raised %r" % (exc,))
        # ---- judge the ordered writes per PDO
        for p in pdos:
            st = p["st"]
            e = expect[(p["kind"], p["number"])]
            log = [x for x in dev.log[mark:] if x[0] in (st.com, st.map)]
            what = ("second save of the same map object: " if second else "") + "%s%d (%s, prior %s) target cob=0x%X enabled=%s rtr=%s type=%s map=%s" % (
                p["kind"], p["number"], source, p["prior"], e["cob_id"], e["enabled"], e["rtr"], e["type"], ["%04X:%02X/%d" % m for m in e["map"]])
            show = ["%04X:%02X<-%X" % x for x in log]
            if not log:
                ctx.violation("C09/nothing-written", "%s: save() wrote nothing" % what)
            first = log[0]
            base = e["cob_id"] | (0 if e["rtr"] else 1 << 30)
            if (first[0], first[1]) != (st.com, 1) or not (first[2] >> 31):
                ctx.violation("C09/not-invalidated-first", "%s: first write is %04X:%02X <- 0x%X (the PDO must be invalidated first); writes: %s" % (what, first[0], first[1], first[2], show))
            if first[2] != base | 1 << 31:
                ctx.violation("C09/cob-id-encoding/invalidate", "%s: first write 0x%08X, expected 0x%08X" % (what, first[2], base | 1 << 31))
            mw = [(i, x) for i, x in enumerate(log) if x[0] == st.map]
            zero = [i for i, x in mw if x[1] == 0 and x[2] == 0]
            ent = [(i, x) for i, x in mw if x[1] >= 1]
            cnt = [i for i, x in mw if x[1] == 0]
            if not zero or (ent and zero[0] > ent[0][0]):
                ctx.violation("C09/count-not-zeroed-before-entries", "%s: writes %s" % (what, show))
            if [x[2] for i, x in ent] != [_word(m) for m in e["map"]] or [x[1] for i, x in ent] != list(range(1, len(e["map"]) + 1)):
                ctx.violation("C09/mapping-entries", "%s: mapping entries written %s, expected %s" % (
                    what, ["%d<-%08X" % (x[1], x[2]) for i, x in ent], ["%08X" % _word(m) for m in e["map"]]))
            final_cnt = cnt[-1]
            if log[final_cnt][2] != len(e["map"]) or (ent and final_cnt < ent[-1][0]):
                ctx.violation("C09/count-not-set-after-entries", "%s: writes %s" % (what, show))
            valid_writes = [i for i, x in enumerate(log) if (x[0], x[1]) == (st.com, 1) and not (x[2] >> 31)]
            if e["enabled"]:
                if not valid_writes or valid_writes[-1] != len(log) - 1 or len(valid_writes) != 1:
                    ctx.violation("C09/not-validated-last", "%s: writes %s" % (what, show))
                if log[-1][2] != base:
                    ctx.violation("C09/cob-id-encoding/validate", "%s: last write 0x%08X, expected 0x%08X" % (what, log[-1][2], base))
            elif valid_writes:
                ctx.violation("C09/validated-although-disabled", "%s: writes %s" % (what, show))
            # device state = target
            if st.cob_word != (base | (0 if e["enabled"] else 1 << 31)) or st.count != len(e["map"]) or st.subs[2][1] != e["type"]:
                ctx.violation("C09/device-state", "%s: device holds cob word 0x%08X, count %d, type %d" % (what, st.cob_word, st.count, st.subs[2][1]))
            for s, val in e["subs"].items():
                if st.subs[s][1] != val:
                    ctx.violation("C09/optional-entry-not-written", "%s: comm sub %d on the device is %d, configured %d" % (what, s, st.subs[s][1], val))
    if source != "load_configuration" and ctx.choice(8, "interrupted-save") == 1:
        # a first attempt to save is cut short: ONE answer of the device is lost, save() fails with an SDO error half-way (or
        # gets through); the application then simply calls save() again on the same objects - that save is the one judged,
        # against whatever the interrupted attempt left on the device
        lose1 = _LoseOne(w.ch.transport, ctx.choice(12, "lose-at-save"), "master")
        w.ch.transport = lose1
        for p in pdos:
            _, exc = call(pmap(p).save)
            if exc is not None:
                if not isinstance(exc, SdoError):
                    ctx.violation("C09/save-raised/%s@%s" % (type(exc).__name__, site(exc)), "save() with one answer lost raised %r" % (exc,))
                break
        w.ch.transport = lose1.inner
        ctx.drain()
        if lose1.fired:
            ctx.fault("answer-lost-during-save")
    save_and_judge(False)
    if ctx.choice(3, "again") == 0:
        # ---- the same node object is changed and saved again (what the device holds now is its 'prior state')
        for p in pdos:
            m = pmap(p)
            e = expect[(p["kind"], p["number"])]
            k = ctx.choice(4, "change")
            if k in (0, 1):
                # another mapping: emptied, or emptied and filled again
                newmap = [] if k == 0 else _gen_mapping(ctx)
                m.clear()
                for (i, sx, bx) in newmap:
                    m.add_variable(i, sx, bx)
                e["map"] = list(newmap)
            elif k == 2:
                m.enabled = not e["enabled"]
                e["enabled"] = m.enabled
            # k == 3: saved again unchanged
            # every attribute the map object holds is written again
            if m.trans_type is not None:
                e["type"] = m.trans_type
            for sx, a2 in ((3, "inhibit_time"), (5, "event_timer"), (6, "sync_start_value")):
                if sx in p["subs"] and getattr(m, a2) is not None:
                    e["subs"][sx] = getattr(m, a2)
        ctx.probe("saved-twice")
        save_and_judge(True)
    # ---- read back into a fresh node on a fresh network
    net2, bus2 = world.make_network(ctx, w.ch, "fresh")
    node2 = canopen.RemoteNode(w.node_id, build_od(pdos))
    net2.add_node(node2)
    node2.sdo.RESPONSE_TIMEOUT = w.timeout
    how = ctx.choice(3, "readhow")
    lose = None
    if ctx.choice(6, "lose-one") == 1:
        # fault configuration: ONE answer of the device is lost during the read-back.  The fresh node may then fail with an
        # SDO error; if read() returns normally, what it read must still be what was saved
        lose = _LoseOne(w.ch.transport, ctx.choice(40, "lose-at"))
        w.ch.transport = lose
    if how == 0:
        _, exc = call(node2.pdo.read)
    else:
        exc = None
        for p in pdos:
            _, exc = call(pmap(p, node2).read)
            if exc is not None:
                break
    if lose is not None:
        w.ch.transport = lose.inner
        if lose.fired:
            ctx.fault("answer-lost-during-read-back")
            if isinstance(exc, SdoError):
                ctx.cover(("read-back-failed-after-lost-answer", type(exc).__name__))
                return
    if exc is not None:
        ctx.violation("C09/read-back-raised/%s@%s" % (type(exc).__name__, site(exc)), "read() into a fresh node raised %r" % (exc,))
    for p in pdos:
        e = expect[(p["kind"], p["number"])]
        m2 = pmap(p, node2)
        got_map = [(v.index, v.subindex, v.length) for v in m2.map]
        what = "%s%d read back by a fresh node" % (p["kind"], p["number"])
        if m2.cob_id != e["cob_id"] or m2.enabled != e["enabled"] or m2.rtr_allowed != e["rtr"] or m2.trans_type != e["type"]:
            ctx.violation("C09/read-back/communication-parameters",
                          "%s: cob_id=0x%X enabled=%s rtr_allowed=%s trans_type=%s, saved: cob_id=0x%X enabled=%s rtr=%s type=%s" % (
                              what, m2.cob_id, m2.enabled, m2.rtr_allowed, m2.trans_type, e["cob_id"], e["enabled"], e["rtr"], e["type"]))
        if got_map != e["map"]:
            ctx.violation("C09/read-back/mapping", "%s: mapping %r, saved %r" % (what, got_map, e["map"]))
        if e["type"] >= 254:
            ctx.probe("event-driven")
            for s, a in ((3, "inhibit_time"), (5, "event_timer"), (6, "sync_start_value")):
                if s in p["subs"] and getattr(m2, a) != e["subs"][s]:
                    ctx.violation("C09/read-back/optional-entry", "%s: %s = %r, saved %r" % (what, a, getattr(m2, a), e["subs"][s]))
        subscribed = e["cob_id"] in net2.subscribers and m2.on_message in net2.subscribers[e["cob_id"]]
        if subscribed != e["enabled"]:
            ctx.violation("C09/subscription", "%s: enabled=%s but the fresh network %s to 0x%X" % (what, e["enabled"], "is subscribed" if subscribed else "is not subscribed", e["cob_id"]))
        if e["cob_id"] > 0x7FF:
            ctx.probe("cob-29bit")
        if not e["rtr"]:
            ctx.probe("no-rtr")
        if not e["enabled"]:
            ctx.probe("disabled")
        for s in p["subs"]:
            ctx.probe("opt-sub%d" % s)
        if len(e["map"]) == 0:
            ctx.probe("mapped-0")
        if len(e["map"]) == 8:
            ctx.probe("mapped-8")
        if p["number"] > 4:
            ctx.probe("pdo-number>4")
        tclass = e["type"] if e["type"] in (0, 1, 240, 252, 253, 254, 255) else ("sync" if e["type"] <= 240 else "reserved")
        ctx.cover((p["kind"], source, p["prior"], e["enabled"], e["rtr"], tclass, len(e["map"]), tuple(sorted(p["subs"])), e["cob_id"] > 0x7FF))
