"""C02 - SDO server serves and stores object values exactly, in conformant frames.

System: real LocalNode + SdoServer + Network.notify dispatch, driven frame by
frame by RefSdoClient (strict CiA 301 client model).  Histories start from a
freshly created node and interleave valid transfers with garbage frames.
"""
from simcan import srvside, world
from simcan.models import codec
from simcan.models.sdo_client import Nonconformance
from simcan.util import site

ID = "C02"
LEVEL = "exploration"
BUDGET = {"quick": 35, "thorough": 420}
RULE = ("one run = a random object dictionary on a fresh LocalNode and a history of up to 40 requests (valid "
        "uploads/downloads of every style, refusals, garbage frames at transfer boundaries and inside transfers); "
        "case key = (operation kind, data type, value source, length class, transfer style, position class); "
        "non-trivial = the operation exchanged at least one frame with the real server; distinct = distinct keys")
EXHAUSTIVE_CORE = ("value lengths 0..64 x {DOMAIN, OCTET_STRING, VISIBLE_STRING} x 4 value sources uploaded from a fresh node, and "
                   "lengths 0..64 x {expedited, segmented with size, segmented without size} downloaded then uploaded; "
                   "each of 11 garbage frame shapes as the very first frame on a fresh node")
ASSUMPTIONS = [
    "RefSdoClient is my reading of CiA 301 for the client side; models/codec.py gives the expected byte encodings",
    "after a frame that is illegal in the reference protocol state only 'exactly one well-formed 8-byte response, no exception' is demanded; "
    "the store may then change only together with a write-callback invocation carrying the same bytes",
    "sub-indices beyond the declared members of an ARRAY are not generated (the library synthesises them from member 1 by design)",
]
COMPONENTS = {
    "real": ["canopen.LocalNode (get_data/set_data/_find_object, callbacks)", "canopen.sdo.server.SdoServer", "canopen.Network.notify/send_message/subscribe",
             "canopen.objectdictionary (ODVariable.encode_raw, ODRecord, ODArray)"],
    "stub": ["CAN backend (SimBus)", "can.Notifier (frames fed to Network.notify by the simulator)", "SDO client (RefSdoClient reference model)"],
}
PROBES = ["upload-exp", "upload-seg", "upload-empty", "download-exp", "download-seg", "download-empty", "garbage-fresh-node",
          "garbage-inside-transfer", "restart-inside-transfer", "refusal", "source-callback", "source-stored", "source-parameter", "source-default", "dynamic-array-member", "read-callback-refuses-once", "write-callback-writes-a-sibling", "peer-answers-inside-send"]
# probes that mark an injected disturbance; the runner also counts them as fired faults in the evidence
FAULT_PROBES = {'garbage-fresh-node': 'garbage-request-frame',
 'garbage-inside-transfer': 'garbage-request-frame',
 'restart-inside-transfer': 'transfer-restarted-midway'}

GARBAGE = ("short", "ccs7", "seg-up-idle", "seg-down-idle", "block-down", "block-up", "block-up-sub", "random8",
           "abort", "seg-up-wrong-toggle", "empty-ish")
STR_TYPES = (codec.DOMAIN, codec.OCTET_STRING, codec.VISIBLE_STRING)


def jobs(tier, seed):
    enum = []
    for ln in range(65):
        for t in range(3):
            for src in range(4):
                enum.append((1, ln, t, src))       # mode 1: upload sweep
            for style in range(3):
                enum.append((2, ln, t, style))     # mode 2: download sweep
    for g in range(len(GARBAGE)):
        enum.append((3, g, 0, 0))                   # mode 3: garbage first
    return enum, (300_000 if tier == "quick" else 5_000_000)


class Run:
    def __init__(self, ctx):
        self.ctx = ctx


def _check_rx(ctx, w, what):
    if w.bus.rx_errors:
        can_id, data, e = w.bus.rx_errors[0]
        ctx.violation("C02/raised-into-receive-path/%s@%s" % (type(e).__name__, site(e)),
                      "%s: frame %s made the server raise %r into Network.notify" % (what, bytes(data).hex(), e))


def _check_store(ctx, w, what):
    for k, obj in w.cb_objects.items():
        if bytes(obj) != w.entries[k].cb[1]:
            ctx.violation("C02/application-buffer-modified",
                          "%s: the bytearray the read callback hands out for %04X:%02X was changed by the server: %s.. (%d bytes), the application holds %d bytes" % (
                              what, k[0], k[1], bytes(obj)[:16].hex(), len(obj), len(w.entries[k].cb[1])))
    snap = w.store_snapshot()
    model = w.model_store()
    if snap != model:
        for k in sorted(set(snap) | set(model)):
            if snap.get(k) != model.get(k):
                ctx.violation("C02/store-mismatch",
                              "%s: data_store[%04X][%d] = %r but the transferred/initial bytes are %r" % (
                                  what, k[0], k[1], snap.get(k) and snap[k][:24].hex(), model.get(k) and model[k][:24].hex()))


def _nc(ctx, e, what):
    ctx.violation("C02/nonconformant-response/%s" % e.reason, "%s: %s %s" % (what, e.reason, e.detail))


def _do_upload(ctx, w, e, pos):
    cl = w.client
    expected = e.current()
    what = "upload %04X:%02X (%s, %s, source %s, %s bytes)" % (e.index, e.sub, codec.NAMES.get(e.dtype, hex(e.dtype)), e.access, e.source(),
                                                              "no" if expected is None else len(expected))
    try:
        res = cl.upload(e.index, e.sub)
    except Nonconformance as x:
        _check_rx(ctx, w, what)
        _nc(ctx, x, what)
    _check_rx(ctx, w, what)
    ln = -1 if expected is None else len(expected)
    ctx.cover(("upload", e.dtype, e.source(), min(ln, 9) if ln < 9 else 9 + (ln % 7), res[0], e.kind, min(pos, 2)))
    if not e.readable():
        if res[0] != "abort":
            ctx.violation("C02/write-only-entry-served", "%s returned data" % what)
        ctx.probe("refusal")
        return
    if expected is None:
        if res[0] != "abort":
            ctx.violation("C02/value-out-of-nothing", "%s: no source holds a value but the server returned %r" % (what, res[1][:16]))
        ctx.probe("refusal")
        return
    if res[0] == "abort":
        ctx.violation("C02/readable-value-refused/%08X" % res[1], "%s was answered by abort 0x%08X" % (what, res[1]))
    data, info = res[1], res[2]
    ctx.probe("source-" + e.source())
    ctx.probe("upload-" + info["style"])
    if len(expected) == 0:
        ctx.probe("upload-empty")
    if data != expected:
        ctx.violation("C02/upload-wrong-bytes/%s/%s" % (info["style"], "empty-value" if len(expected) == 0 else "len%s" % ("<=4" if len(expected) <= 4 else ">4")),
                      "%s returned %d bytes %s.. instead of %d bytes %s.." % (what, len(data), data[:16].hex(), len(expected), expected[:16].hex()))
    if info["style"] == "seg" and info["size"] is not None and info["size"] != len(expected):
        ctx.violation("C02/upload-announced-size", "%s announced %d bytes" % (what, info["size"]))


def _do_download(ctx, w, e, pos, length_override=None, style_override=None):
    cl = w.client
    ctx_ = ctx
    if e.dtype in codec.FIXED:
        val = srvside.gen_value(ctx, e.dtype)
    else:
        if length_override is not None:
            from simcan import world as _w
            salt = 1 + ctx.choice(200, "salt")
            if e.dtype == codec.VISIBLE_STRING:
                raw = _w.pattern(length_override, salt, text=True)
                val = (raw.decode("ascii"), raw)
            else:
                raw = _w.pattern(length_override, salt)
                val = (raw, raw)
        else:
            val = srvside.gen_value(ctx, e.dtype, 10_000 if ctx.params.get("tier") == "thorough" and ctx.choice(8, "long") == 1 else 64)
    data = val[1]
    styles = []
    if 1 <= len(data) <= 4:
        styles.append("exp")
    if len(data) == 4:
        styles.append("exp-nosize")
    styles += ["seg", "seg-nosize"]
    if style_override is not None:
        mode = ("exp", "seg", "seg-nosize")[style_override]
        if mode == "exp" and not 1 <= len(data) <= 4:
            mode = "seg"
    else:
        mode = styles[ctx.choice(len(styles), "dlstyle")]
    seg_len = None
    if ctx.choice(3, "seglen") == 1:
        seg_len = lambda: 7 - ctx.choice(7, "sl")
    what = "download %04X:%02X (%s, %s) %d bytes %s" % (e.index, e.sub, codec.NAMES.get(e.dtype, hex(e.dtype)), e.access, len(data), mode)
    nlog = len(w.wlog)
    sib = None
    if e.writable() and e.sub > 0 and ctx.choice(8, "sibling") == 1:
        # the application's write callback, told about this download, writes another member of the same object through the
        # node's own SDO API (once): both values must be there afterwards
        cands = [x for x in w.entries.values() if x.index == e.index and x.sub != e.sub and x.sub > 0 and x.dtype not in codec.FIXED]
        if cands:
            sib = cands[ctx.choice(len(cands), "sibent")]
            sdata = world.pattern(1 + ctx.choice(12, "siblen"), 31)
            w.sibling_hook = ((e.index, e.sub), (sib.index, sib.sub), sdata)
    try:
        res = cl.download(e.index, e.sub, data, mode, seg_len)
    except Nonconformance as x:
        _check_rx(ctx, w, what)
        _nc(ctx, x, what)
    _check_rx(ctx, w, what)
    ctx.cover(("download", e.dtype, mode, min(len(data), 9) if len(data) < 9 else 9 + (len(data) % 7), res[0], e.kind, min(pos, 2)))
    new = w.wlog[nlog:]
    if not e.writable():
        if res[0] != "abort":
            ctx.violation("C02/read-only-entry-written", "%s was accepted" % what)
        if new:
            ctx.violation("C02/write-callback-on-refused-write", "%s: callbacks saw %r" % (what, new))
        ctx.probe("refusal")
        return
    if res[0] == "abort":
        ctx.violation("C02/valid-download-refused/%08X" % res[1], "%s was answered by abort 0x%08X at %s" % (what, res[1], res[3]))
    ctx.probe("download-" + ("exp" if mode.startswith("exp") else "seg"))
    if len(data) == 0:
        ctx.probe("download-empty")
    e.stored = (val[0], data)
    if sib is not None and w.sibling_hook is None:
        sib.stored = (sdata, sdata)
        ctx.probe("write-callback-writes-a-sibling")
        if new == [(e.index, e.sub, data), (sib.index, sib.sub, sdata)]:
            new = [(e.index, e.sub, data)]
    w.sibling_hook = None
    if new != [(e.index, e.sub, data)]:
        ctx.violation("C02/write-callback-arguments", "%s: write callbacks saw %r" % (what, [(i, s, d[:16].hex(), len(d)) for i, s, d in new]))


def _garbage_frame(ctx, w, kind):
    if kind == "short":
        n = 1 + ctx.choice(7, "glen")
        return bytes(ctx.choice(256, "gb") for _ in range(n))
    if kind == "empty-ish":
        first = (0x40, 0x20, 0x23, 0x60, 0x00)[ctx.choice(5, "gfirst")]
        return bytes([first]) + bytes(ctx.choice(3, "glen2"))
    if kind == "ccs7":
        return bytes([0xE0 | ctx.choice(32, "low")]) + bytes(ctx.choice(256, "gb") for _ in range(7))
    if kind == "seg-up-idle":
        return bytes([0x60 | ctx.choice(2, "t") << 4, 0, 0, 0, 0, 0, 0, 0])
    if kind == "seg-up-wrong-toggle":
        return bytes([0x70, 0, 0, 0, 0, 0, 0, 0])
    if kind == "seg-down-idle":
        n = ctx.choice(8, "n")
        return bytes([ctx.choice(2, "t") << 4 | n << 1 | ctx.choice(2, "c")]) + bytes(0x41 + i for i in range(7 - n)) + bytes(n)
    if kind == "block-down":
        return bytes([0xC0 | ctx.choice(8, "low"), 0x00, 0x20, 0, 10, 0, 0, 0])
    if kind == "block-up":
        return bytes([0xA0 | ctx.choice(2, "cc") << 2, 0xEF, 0xBE, 0x01, 127, 0, 0, 0])     # object that does not exist
    if kind == "block-up-sub":
        return bytes([0xA0 | (1, 2, 3)[ctx.choice(3, "cs")], ctx.choice(128, "a"), 127, 0, 0, 0, 0, 0])
    if kind == "abort":
        return bytes([0x80, 0, 0, 0, 0, 0, 4, 5])
    # random8 with a command specifier that cannot legally change a value:
    ccs = (0, 3, 7, 6, 5)[ctx.choice(5, "ccs")]
    return bytes([ccs << 5 | ctx.choice(32, "low")]) + bytes(ctx.choice(256, "gb") for _ in range(7))


def _do_garbage(ctx, w, kind, where):
    fr = _garbage_frame(ctx, w, kind)
    cl = w.client
    what = "garbage frame %s (%s, %s)" % (fr.hex(), kind, where)
    nlog = len(w.wlog)
    rs = cl.exchange(fr)
    cl.state = None
    _check_rx(ctx, w, what)
    ctx.cover(("garbage", kind, where, len(rs)))
    is_client_abort = len(fr) >= 1 and fr[0] >> 5 == 4
    if not is_client_abort:
        if len(rs) != 1:
            ctx.violation("C02/garbage-response-count-%d/%s" % (len(rs), where),
                          "%s was answered by %d frames %s (exactly one well-formed 8-byte response is required)" % (what, len(rs), [r.hex() for r in rs]))
        if len(rs[0]) != 8:
            ctx.violation("C02/garbage-response-length", "%s answered by %s" % (what, rs[0].hex()))
    # whatever the server did to the store it must have told the application
    for (i, s, d) in w.wlog[nlog:]:
        e = w.entries.get((i, s)) or w.dyn_entry(i, s)
        if e is not None:
            e.stored = (d, d)
        else:
            ctx.violation("C02/write-callback-for-unknown-object", "%s: callback for %04X:%02X" % (what, i, s))


def _begin_then_interrupt(ctx, w, readable, writable):
    """Start a segmented transfer, run a few segments, then garbage or a
    restart lands inside it; the interrupted transfer is abandoned."""
    cl = w.client
    up = ctx.choice(2, "updown") == 0
    if up and readable:
        cands = [e for e in readable if e.current() is not None and len(e.current()) > 4]
        if not cands:
            return False
        e = cands[ctx.choice(len(cands), "ent")]
        try:
            r = cl.init_upload(e.index, e.sub)
            if r["kind"] != "seg":
                return True
            for _ in range(ctx.choice(3, "segs")):
                if cl.state is None:
                    break
                cl.upload_segment()
        except Nonconformance as x:
            _nc(ctx, x, "interrupted upload %04X:%02X" % (e.index, e.sub))
        return True
    cands = [e for e in writable if e.dtype not in codec.FIXED]
    if not cands:
        return False
    e = cands[ctx.choice(len(cands), "ent")]
    try:
        r = cl.init_download(e.index, e.sub, bytes(30), "seg" if ctx.choice(2, "sz") else "seg-nosize")
        if r["kind"] != "ok":
            return True
        for k in range(ctx.choice(3, "segs")):
            if cl.state is None:
                break       # (the server refused a segment: the transfer is over)
            cl.download_segment(bytes([0x61 + k] * 7), False)
    except Nonconformance as x:
        _nc(ctx, x, "interrupted download %04X:%02X" % (e.index, e.sub))
    return True


def _pick_entry(ctx, w, entries):
    e = entries[ctx.choice(len(entries), "ent")]
    if e.kind == "array" and e.sub >= 1 and ctx.choice(8, "dyn") == 0:
        # a member the dictionary does not list: ODArray derives it from the first member
        d = w.dyn_entry(e.index, min(255, e.sub + 1 + ctx.choice(6, "dynsub")))
        if d is not None:
            if d not in entries:
                entries.append(d)
            ctx.probe("dynamic-array-member")
            return d
    return e


def _answers_inside_send(ctx, node_id):
    """A peer that answers inside the server's send call: a Network whose send_message() (the documented integration point
    for custom interfaces, and what the repository's own loop-back tests override) hands every response straight to an
    event-driven client, which sends its next request from inside that handler.  Every request of the valid segmented
    transfer is therefore handled while the server is still sending the previous response."""
    import canopen
    import canopen.objectdictionary as odm
    n = 8 + ctx.choice(40, "relen")
    value = world.pattern(n, 41)
    od = canopen.ObjectDictionary()
    od.add_object(world.var("Blob", 0x2F10, 0, odm.DOMAIN, "rw", default=None))
    rx, tx = 0x600 + node_id, 0x580 + node_id
    st = {"got": bytearray(), "toggle": 0, "done": False, "aborted": None, "responses": 0, "mode": None, "pos": 0, "depth": 0, "maxdepth": 0}

    class LoopNet(canopen.Network):
        def send_message(self, can_id, data, remote=False):
            if can_id == tx:
                on_response(bytes(data))

    net = LoopNet()
    local = canopen.LocalNode(node_id, od)
    net.add_node(local)
    local.data_store.setdefault(0x2F10, {})[0] = bytes(value)
    dl = world.pattern(n, 43)

    def request(fr):
        st["depth"] += 1
        st["maxdepth"] = max(st["maxdepth"], st["depth"])
        try:
            net.notify(rx, bytearray(fr), 0.0)
        finally:
            st["depth"] -= 1

    def on_response(r):
        st["responses"] += 1
        if r[0] == 0x80:
            st["aborted"] = int.from_bytes(r[4:8], "little")
            return
        if st["mode"] == "up":
            if r[0] >> 5 == 2:                         # initiate upload response (segmented)
                request(bytes([0x60, 0, 0, 0, 0, 0, 0, 0]))
            elif r[0] >> 5 == 0:
                k = 7 - ((r[0] >> 1) & 7)
                st["got"] += r[1:1 + k]
                if r[0] & 1:
                    st["done"] = True
                else:
                    st["toggle"] ^= 1
                    request(bytes([0x60 | st["toggle"] << 4, 0, 0, 0, 0, 0, 0, 0]))
        else:
            if st["pos"] >= n:
                st["done"] = True
                return
            chunk = dl[st["pos"]:st["pos"] + 7]
            st["pos"] += len(chunk)
            last = st["pos"] >= n
            t = st["toggle"]
            st["toggle"] ^= 1
            request(bytes([t << 4 | (7 - len(chunk)) << 1 | (1 if last else 0)]) + chunk + bytes(7 - len(chunk)))

    what = "segmented %%s of %d bytes with a peer that answers inside the server's send call" % n
    st["mode"] = "up"
    try:
        request(bytes([0x40, 0x10, 0x2F, 0, 0, 0, 0, 0]))
    except Exception as e:      # noqa
        ctx.violation("C02/raised-into-receive-path/%s@%s" % (type(e).__name__, site(e)), "%s: %r" % (what % "upload", e))
    if st["aborted"] is not None or not st["done"] or bytes(st["got"]) != value:
        ctx.violation("C02/upload-wrong-bytes/answers-inside-send", "%s: done=%s abort=%s, got %s, value %s" % (
            what % "upload", st["done"], None if st["aborted"] is None else hex(st["aborted"]), bytes(st["got"]).hex(), value.hex()))
    st.update(got=bytearray(), toggle=0, done=False, aborted=None, mode="down", pos=0)
    try:
        request(bytes([0x21, 0x10, 0x2F, 0]) + n.to_bytes(4, "little"))
    except Exception as e:      # noqa
        ctx.violation("C02/raised-into-receive-path/%s@%s" % (type(e).__name__, site(e)), "%s: %r" % (what % "download", e))
    stored = local.data_store.get(0x2F10, {}).get(0)
    if st["aborted"] is not None or not st["done"] or stored != dl:
        ctx.violation("C02/store-mismatch/answers-inside-send", "%s: done=%s abort=%s, stored %r" % (
            what % "download", st["done"], None if st["aborted"] is None else hex(st["aborted"]), stored))
    ctx.probe("peer-answers-inside-send")
    ctx.cover(("answers-inside-send", min(n // 7, 6)))


def scenario(ctx):
    mode = ctx.choice(4, "mode")       # 0 seeded history; 1 upload sweep; 2 download sweep; 3 garbage first
    a = ctx.choice(65, "a")
    b = ctx.choice(4, "b")
    c = ctx.choice(4, "c")
    node_id = 1 + ctx.choice(127, "node")
    if mode in (1, 2):
        od, entries = srvside.gen_od(ctx, nobj=1 + ctx.choice(3, "nobj"))
        # the swept entry
        import canopen.objectdictionary as odm
        e = srvside.Entry()
        e.index, e.sub, e.dtype, e.access = 0x2F00, 0, STR_TYPES[b % 3], "rw"
        e.default = e.value = e.cb = e.stored = None
        e.kind, e.name = "var", "Swept"
        if mode == 1:
            from simcan import world as _w
            raw = _w.pattern(a, 7 + b, text=(e.dtype == codec.VISIBLE_STRING))
            py = raw.decode("ascii") if e.dtype == codec.VISIBLE_STRING else raw
            src = ("default", "value", "stored", "cb")[c % 4]
            setattr(e, src, (py, raw))
        if 0x2F00 in od:
            del od[0x2F00]
            entries = [x for x in entries if x.index != 0x2F00]
        od.add_object(srvside._odvar(e, "Swept"))
        entries.append(e)
        w = srvside.ServerWorld(ctx, od, entries, node_id)
        if mode == 1:
            _do_upload(ctx, w, e, 0)
        else:
            _do_download(ctx, w, e, 0, length_override=a, style_override=c % 3)
            _check_store(ctx, w, "after swept download")
            _do_upload(ctx, w, e, 1)
        _check_store(ctx, w, "sweep")
        return
    if mode == 0 and ctx.choice(16, "answers-inside-send") == 1:
        return _answers_inside_send(ctx, node_id)
    maxlen = 64
    if ctx.params.get("tier") == "thorough" and ctx.choice(6, "longvalues") == 0:
        maxlen = 10_000
    od, entries = srvside.gen_od(ctx, maxlen)
    w = srvside.ServerWorld(ctx, od, entries, node_id)
    readable = [e for e in entries]
    writable = [e for e in entries]
    if mode == 3:
        _do_garbage(ctx, w, GARBAGE[a % len(GARBAGE)], "fresh-node")
        ctx.probe("garbage-fresh-node")
        _check_store(ctx, w, "after first garbage frame")
    nops = 1 + ctx.choice(40 if mode == 0 else 6, "nops")
    for k in range(nops):
        with ctx.span("op"):
            op = ctx.weighted(((6, "upload"), (5, "download"), (2, "garbage"), (2, "interrupt"), (1, "restart"), (1, "cb-refuses")), "op")
            if not entries:
                op = "garbage"
            if op == "upload":
                _do_upload(ctx, w, _pick_entry(ctx, w, entries), k)
            elif op == "download":
                _do_download(ctx, w, _pick_entry(ctx, w, entries), k)
            elif op == "cb-refuses":
                # the application's read callback refuses ONE read of an entry (it raises SdoAbortedError, the documented way
                # to do that): that request gets exactly one response; later uploads get the callback's value again
                c = [x for x in w.entries.values() if x.cb is not None and x.readable()]
                if c:
                    x = c[ctx.choice(len(c), "refent")]
                    w.refuse_once.add((x.index, x.sub))
                    rs = w.client.exchange(bytes([0x40, x.index & 0xFF, x.index >> 8, x.sub, 0, 0, 0, 0]))
                    w.client.state = None
                    w.refuse_once.discard((x.index, x.sub))
                    _check_rx(ctx, w, "upload of %04X:%02X refused by the application's read callback" % (x.index, x.sub))
                    if len(rs) != 1 or len(rs[0]) != 8:
                        ctx.violation("C02/garbage-response-count-%d/callback-refuses" % len(rs), "upload of %04X:%02X whose read callback raises SdoAbortedError was answered by %r" % (x.index, x.sub, [r.hex() for r in rs]))
                    ctx.probe("read-callback-refuses-once")
                    _do_upload(ctx, w, x, k)
            elif op == "garbage":
                where = "fresh-node" if (k == 0 and w.client.sent == 0) else "boundary"
                _do_garbage(ctx, w, GARBAGE[ctx.choice(len(GARBAGE), "gkind")], where)
                if where == "fresh-node":
                    ctx.probe("garbage-fresh-node")
            elif op == "interrupt":
                if _begin_then_interrupt(ctx, w, readable, writable):
                    _do_garbage(ctx, w, GARBAGE[ctx.choice(len(GARBAGE), "gkind")], "inside-transfer")
                    ctx.probe("garbage-inside-transfer")
            else:
                if _begin_then_interrupt(ctx, w, readable, writable):
                    ctx.probe("restart-inside-transfer")
                    # a new initiate restarts the server: the next valid op follows immediately
                    w.client.state = None
            _check_store(ctx, w, "after op %d (%s)" % (k, op))
    ctx.log("done", nops)
