"""C03 - Typed values survive the client -> bus -> server -> client round trip.

System: all real - master Network with RemoteNodes, slave Network with
LocalNodes, one simulated segment, real SdoClient/SdoServer, typed accessors.
Checked against the independent codec only.  Mode T: 1..8 client tasks on
distinct nodes share the master Network; the seeded scheduler decides every
interleaving; optional line-level pre-emptions inside canopen code; a TX driver
model that is not thread-safe makes the purpose of send_lock observable.
Mode I: value sweeps on one node.  Mode V: as Mode T, but over python-can's own
virtual bus and Notifier threads (real code, seams owned by the simulator).
"""
import math
import os
import struct

import canopen
from canopen import objectdictionary as odm

from simcan import patch, world
from simcan.bus import PeerEndpoint
from simcan.core import MS, SEC, US, Violation
from simcan.models import codec
from simcan.util import call, site

ID = "C03"
LEVEL = "exploration"
BUDGET = {"quick": 45, "thorough": 600}
MIN_SEEDED = 800        # threaded runs are slow (about 100 per second and core)
RULE = ("one run = 1..8 client tasks (Mode T) or one caller (Mode I), each assigning typed values through a remote node's SDO "
        "accessor and reading them back from both sides; case key = (mode, data type, access path, value class, delivery mode, "
        "#clients, pre-emptions used); all keys involve real transfers; distinct = distinct keys; distinct interleavings are "
        "counted separately by the hash of contested scheduling decisions")
EXHAUSTIVE_CORE = ("Mode I: every boundary value (range ends, -1, 0, 1, powers of two +-1 at byte borders) of all 16 integer types, "
                   "BOOLEAN, REAL32/64 special values, string/DOMAIN lengths 0..40, each by index, by name and by 'Record.Member'; "
                   "thorough adds every value of the 8- and 16-bit integer types")
ASSUMPTIONS = [
    "models/codec.py is the CiA 301 encoding (little-endian two's complement, IEEE 754, ASCII, UTF-16-LE)",
    "UNICODE_STRING values are BMP characters without surrogates and without trailing NUL; VISIBLE_STRING values are printable ASCII (the decoder strips trailing NULs by design)",
    "python-can's threaded virtual bus named in the quantifier runs as real code in Mode V (can.interfaces.virtual.VirtualBus, can.Notifier, Network.connect/disconnect) with its queue, clock, lock and Thread seams owned by the simulator, so that its interleavings are decided by the seeded scheduler; Mode T uses SimBus instead (wire latency, non-thread-safe TX driver model)",
    "no frame loss; delivery later than the client's time-out only in marked 'slow episodes' of Mode I (calls made inside an episode are not judged, every later round trip is); scheduling granularity = simulator primitives plus up to 3 line-level pre-emptions inside canopen/ per run",
]
COMPONENTS = {
    "real": ["canopen.Network (send_lock, subscribers, notify)", "canopen.RemoteNode / LocalNode", "canopen.sdo.client", "canopen.sdo.server",
             "canopen.sdo.base / canopen.variable accessors", "canopen.objectdictionary codec (encode_raw/decode_raw)",
             "Mode V: python-can VirtualBus and Notifier (reader threads as scheduler tasks), canopen.Network.connect/disconnect, MessageListener"],
    "stub": ["CAN backend (SimBus; optional non-thread-safe TX slot model)", "can.Notifier (one receive task per Network under the seeded scheduler)",
             "time/queue/threading inside canopen modules", "caller threads = baton-passing real threads"],
}
PROBES = ["mode-T", "mode-I", "inline-delivery", "deferred-delivery", "unrelated-traffic", "preempted", "clients>=4", "by-name", "record-member",
          "late-answers-queued", "mode-V", "unwritten-object-read"]

INT_TYPES = sorted(codec.INTS)
STR_TYPES = (codec.VISIBLE_STRING, codec.UNICODE_STRING, codec.OCTET_STRING, codec.DOMAIN)
ALL = [codec.BOOLEAN] + INT_TYPES + [codec.REAL32, codec.REAL64] + list(STR_TYPES)
PATHS = ("index", "name", "record.member", "record[sub]", "array")
R32 = (0.0, -0.0, 1.0, -2.5, 3.4028234663852886e38, 1.401298464324817e-45, 1.1754942106924411e-38, float("inf"), float("-inf"), float("nan"), 0.1)
R64 = (0.0, -0.0, 1.0, -2.5, 1.7976931348623157e308, 5e-324, 2.2250738585072014e-308, float("inf"), float("-inf"), float("nan"), 0.1)


def jobs(tier, seed):
    enum = []
    # Mode I boundary sweeps: (mode=1, type idx, path, chunk)
    for ti in range(len(ALL)):
        for p in range(len(PATHS)):
            enum.append((1, ti, p, 0))
    if tier == "thorough":
        for ti, t in enumerate(ALL):
            if t in codec.INTS and codec.INTS[t] in (8, 16):
                n = 1 << codec.INTS[t]
                for chunk in range(max(1, n // 2048)):
                    enum.append((2, ti, chunk % len(PATHS), chunk))
    return enum, (60_000 if tier == "quick" else 1_500_000)


def build_od():
    od = canopen.ObjectDictionary()
    for t in ALL:
        od.add_object(world.var("V%02X" % t, 0x2000 + t, 0, t))
    members = [world.var("n", 0x3000, 0, odm.UNSIGNED8, "ro", default=len(ALL))]
    for k, t in enumerate(ALL):
        members.append(world.var("M%02X" % t, 0x3000, k + 1, t))
    od.add_object(world.record("Rec", 0x3000, members))
    for t in (codec.UNSIGNED16, codec.INTEGER32, codec.DOMAIN):
        idx = 0x3100 + t
        od.add_object(world.array("Arr%02X" % t, idx, [world.var("n", idx, 0, odm.UNSIGNED8, "ro", default=4)] +
                                  [world.var("a%d" % k, idx, k, t) for k in (1, 2, 3, 4)]))
    return od


def accessor(sdo, t, path, k=1):
    """Return (variable accessor, index, sub) for data type t through `path`."""
    if path == "index":
        return sdo[0x2000 + t], 0x2000 + t, 0
    if path == "name":
        return sdo["V%02X" % t], 0x2000 + t, 0
    sub = ALL.index(t) + 1
    if path == "record.member":
        return sdo["Rec.M%02X" % t], 0x3000, sub
    if path == "record[sub]":
        return sdo[0x3000][sub], 0x3000, sub
    at = t if t in (codec.UNSIGNED16, codec.INTEGER32, codec.DOMAIN) else codec.UNSIGNED16
    return sdo[0x3100 + at][k], 0x3100 + at, k


ARR_TYPES = (codec.UNSIGNED16, codec.INTEGER32, codec.DOMAIN)


def eff_type(t, path):
    """arrays exist for three element types only"""
    if path == "array" and t not in ARR_TYPES:
        return ARR_TYPES[t % 3]
    return t


def same(t, a, b):
    if t in (codec.REAL32, codec.REAL64):
        fmt = "<f" if t == codec.REAL32 else "<d"
        try:
            return struct.pack(fmt, a) == struct.pack(fmt, b)
        except (OverflowError, struct.error, TypeError):
            return False
    if t == codec.BOOLEAN:
        return bool(a) == bool(b) and isinstance(b, (bool, int))
    if t in (codec.OCTET_STRING, codec.DOMAIN):
        return bytes(a) == bytes(b)
    return a == b and type(a) == type(b)


def gen_value(ctx, t, tag, cls=None):
    """A value of type t; `tag` (node id) is woven into it where the type allows."""
    if t == codec.BOOLEAN:
        return bool(ctx.choice(2, "b")), "bool"
    if t in codec.INTS:
        bv = codec.boundary_values(t)
        k = ctx.choice(len(bv) + 6, "iv")
        if k < len(bv):
            return bv[k], "boundary"
        lo, hi = codec.int_range(t)
        return lo + ctx.choice(hi - lo + 1, "ir"), "random"
    if t == codec.REAL32:
        k = ctx.choice(len(R32) + 3, "r32")
        if k < len(R32):
            return R32[k], "special"
        return struct.unpack("<f", struct.pack("<I", ctx.choice(1 << 32, "r32bits")))[0], "bits"
    if t == codec.REAL64:
        k = ctx.choice(len(R64) + 3, "r64")
        if k < len(R64):
            return R64[k], "special"
        return struct.unpack("<d", struct.pack("<Q", ctx.choice(1 << 64, "r64bits")))[0], "bits"
    n = ctx.choice(201 if ctx.choice(4, "long") == 0 else 41, "slen")
    salt = tag * 3 + ctx.choice(60, "salt")
    if ctx.choice(4, "zerotail") == 0:
        # short values whose encoding ends in zero bytes (or is nothing but zero bytes): 1..8 bytes, the sizes around
        # the expedited/segmented boundary, where padding and payload are easiest to confuse
        n = 1 + ctx.choice(8, "zlen")
        k = ctx.choice(3, "zkind")
        if t == codec.UNICODE_STRING:
            # characters below U+0100: every second byte of the UTF-16-LE encoding is 0x00, the last one too
            return "".join(chr(0x21 + (i * 7 + salt) % 0x5E) for i in range(max(1, n // 2))), "zero-tail"
        if t in (codec.OCTET_STRING, codec.DOMAIN):
            body = bytearray(world.pattern(n, salt))
            if k == 0:
                body[-1] = 0
            elif k == 1:
                body = bytearray(n)
            else:
                body[n // 2:] = bytes(n - n // 2)
            return bytes(body), "zero-tail"
    cls = "len%d" % (n if n < 9 else 9 + n % 7)
    if t == codec.VISIBLE_STRING:
        s = world.pattern(n, salt, text=True).decode("ascii")
        return s, cls
    if t == codec.UNICODE_STRING:
        s = "".join(chr(0x21 + ((i * 131 + salt * 977) % 0xD700)) for i in range(n // 2))
        return s, cls
    return world.pattern(n, salt), cls


def one_roundtrip(ctx, remote, local, t, path, value, who, k=1):
    """assign through the remote accessor, read back on both sides, check the
    stored bytes.  Raises Violation."""
    var, index, sub = accessor(remote.sdo, t, path, k)
    what = "%s: node %d %s via %s value %r" % (who, remote.id, codec.NAMES[t], path, value if not isinstance(value, (bytes, str)) or len(value) < 24 else value[:24])
    try:
        var.raw = value
    except Violation:
        raise
    except Exception as e:      # noqa
        ctx.violation("C03/assign-raised/%s@%s" % (type(e).__name__, site(e)), "%s: assignment raised %r" % (what, e))
    expected = codec.encode(t, value)
    stored = local.data_store.get(index, {}).get(sub)
    if stored != expected:
        ctx.violation("C03/stored-bytes/%s" % ("string" if t in STR_TYPES else "number"),
                      "%s: local node holds %r, CiA 301 encoding is %s" % (what, None if stored is None else bytes(stored)[:24].hex(), expected[:24].hex()))
    try:
        back = accessor(remote.sdo, t, path, k)[0].raw
    except Violation:
        raise
    except Exception as e:      # noqa
        ctx.violation("C03/read-back-raised/%s@%s" % (type(e).__name__, site(e)), "%s: reading back raised %r" % (what, e))
    if not same(t, value, back):
        ctx.violation("C03/remote-read-back/%s" % ("string" if t in STR_TYPES else "number"), "%s: remote accessor read back %r" % (what, back if not isinstance(back, (bytes, str)) or len(back) < 40 else back[:40]))
    lv = accessor(local.sdo, t, path, k)[0].raw
    if not same(t, value, lv):
        ctx.violation("C03/local-read/%s" % ("string" if t in STR_TYPES else "number"), "%s: local accessor reads %r" % (what, lv if not isinstance(lv, (bytes, str)) or len(lv) < 40 else lv[:40]))
    ctx.log("roundtrip", who, remote.id, t, path, expected[:12])


def scenario(ctx):
    mode = ctx.choice(4, "mode")        # 0 Mode T, 1 Mode I boundary sweep, 2 Mode I exhaustive chunk, 3 Mode T over python-can's virtual bus
    a = ctx.choice(len(ALL), "type")
    b = ctx.choice(len(PATHS), "path")
    c = ctx.choice(64, "chunk")
    if mode == 0:
        return _mode_t(ctx)
    if mode == 3:
        return _mode_v(ctx)
    ctx.probe("mode-I")
    ch = world.make_channel(ctx)
    ch.inline_mode = ctx.choice(2, "inline") == 1
    mnet, mbus = world.make_network(ctx, ch, "master")
    snet, sbus = world.make_network(ctx, ch, "slave")
    od = build_od()
    nid = 1 + ctx.choice(127, "node")
    remote = canopen.RemoteNode(nid, od)
    mnet.add_node(remote)
    local = canopen.LocalNode(nid, od if ctx.choice(2, "sharedod") else build_od())
    snet.add_node(local)
    path = PATHS[b]
    t = eff_type(ALL[a], path)
    ctx.probe("inline-delivery" if ch.inline_mode else "deferred-delivery")
    if path == "name":
        ctx.probe("by-name")
    if path.startswith("record"):
        ctx.probe("record-member")
    if mode == 2 and t in codec.INTS and codec.INTS[t] in (8, 16):
        lo, hi = codec.int_range(t)
        n = hi - lo + 1
        size = min(n, 2048)
        start = lo + (c % max(1, n // size)) * size
        for v in range(start, start + size):
            one_roundtrip(ctx, remote, local, t, path, v, "sweep")
        ctx.cover(("I-all", t, path, c % max(1, n // size)))
        return
    if t in codec.INTS:
        vals = codec.boundary_values(t)
    elif t == codec.BOOLEAN:
        vals = [False, True, 0, 1]
    elif t == codec.REAL32:
        vals = list(R32)
    elif t == codec.REAL64:
        vals = list(R64)
    else:
        vals = None
    if vals is None:
        for n in range(41):
            salt = 7 + n
            if t == codec.VISIBLE_STRING:
                v = world.pattern(n, salt, text=True).decode("ascii")
            elif t == codec.UNICODE_STRING:
                v = "".join(chr(0x21 + ((i * 131 + salt * 977) % 0xD700)) for i in range(n))
            else:
                v = world.pattern(n, salt)
            one_roundtrip(ctx, remote, local, t, path, v, "sweep", 1 + n % 4)
            ctx.cover(("I", t, path, "len%d" % n, ch.inline_mode))
    else:
        for v in vals:
            one_roundtrip(ctx, remote, local, t, path, v, "sweep")
            ctx.cover(("I", t, path, "boundary", ch.inline_mode))
    # seeded extras
    nextra = ctx.choice(6, "extra")
    slow_at = ctx.choice(2 * nextra + 2, "slowat")      # < nextra: a slow episode precedes that extra round trip
    for i in range(nextra):
        if i == slow_at and not ch.inline_mode:
            _slow_episode(ctx, ch, remote, nid)
        p2 = PATHS[ctx.choice(len(PATHS), "p2")]
        t2 = eff_type(ALL[ctx.choice(len(ALL), "t2")], p2)
        v, cls = gen_value(ctx, t2, nid)
        one_roundtrip(ctx, remote, local, t2, p2, v, "extra", 1 + ctx.choice(4, "k"))
        ctx.cover(("I", t2, p2, cls, ch.inline_mode))


def _check_unwritten(ctx, pairs, plans, tag):
    """An object that only OTHER nodes' clients wrote holds nothing on this node (the generated
    dictionaries have no defaults): a value there is another node's data."""
    written = []
    for ci, (r, l) in enumerate(pairs):
        written.append(set(accessor(r.sdo, t, path, k)[1:] for (t, path, v, cls, k) in plans[ci]))
    for ci, (r, l) in enumerate(pairs):
        others = set().union(*[w for cj, w in enumerate(written) if cj != ci]) if len(pairs) > 1 else set()
        for (index, sub) in sorted(others - written[ci])[:6]:
            data, exc = call(l.get_data, index, sub)
            if exc is None:
                ctx.violation("C03/cross-talk/unwritten-object-holds-a-value",
                              "%s: node %d was never written at %04X:%02X, yet it holds %r (another node's client wrote that object on its own node)" % (
                                  tag, r.id, index, sub, bytes(data)[:24]))
            elif not isinstance(exc, canopen.SdoAbortedError):
                ctx.violation("C03/read-back-raised/%s@%s" % (type(exc).__name__, site(exc)), "%s: local read of %04X:%02X raised %r" % (tag, index, sub, exc))
            ctx.probe("unwritten-object-read")


def _slow_episode(ctx, ch, remote, nid):
    """The dispatcher that delivers the frames is late by more than the client's
    SDO time-out for a while: the 1..3 calls made meanwhile may time out (not
    judged), their answers arrive afterwards and wait in the client's queue.
    Every later round trip is judged as usual (late answers must be discarded)."""
    tr = ch.transport
    old = (tr.lat_lo, tr.lat_hi, remote.sdo.RESPONSE_TIMEOUT)
    remote.sdo.RESPONSE_TIMEOUT = 0.05
    tr.lat_lo = tr.lat_hi = (40 + 20 * ctx.choice(4, "slowlat")) * MS
    timed_out = 0
    try:
        for _ in range(1 + ctx.choice(3, "nslow")):
            p2 = PATHS[ctx.choice(len(PATHS), "sp")]
            t2 = eff_type(ALL[ctx.choice(len(ALL), "st")], p2)
            var = accessor(remote.sdo, t2, p2, 1 + ctx.choice(4, "sk"))[0]
            try:
                if ctx.choice(2, "srw"):
                    var.raw = gen_value(ctx, t2, nid)[0]
                else:
                    var.raw
            except canopen.SdoCommunicationError:
                timed_out += 1
            except canopen.SdoAbortedError:
                pass        # e.g. nothing stored yet, or the server saw the client's time-out abort in between
    finally:
        tr.lat_lo, tr.lat_hi, remote.sdo.RESPONSE_TIMEOUT = old
    ctx.run_for(400 * MS)       # everything still in flight arrives before the next call
    if timed_out:
        ctx.fault("answers-later-than-timeout", timed_out)
        ctx.probe("late-answers-queued")
    ctx.cover(("slow-episode", min(timed_out, 3)))


def _mode_v(ctx):
    """The configuration the quantifier names last: python-can's own *threaded
    virtual bus*.  can.interfaces.virtual.VirtualBus and can.Notifier run as
    real code (Network.connect / disconnect included); their queue, clock, lock
    and Thread seams belong to the simulator, so the Notifier's reader threads
    are tasks of the seeded scheduler like the client threads."""
    import can
    from can.interfaces import virtual
    ctx.probe("mode-V")
    nclients = 1 + ctx.choice(4, "clients")
    policy = (0, 4, 16)[ctx.choice(3, "policy")]
    npre = ctx.choice(4, "npreempt") if (ctx.params.get("tier") == "thorough" or ctx.choice(4, "preq") == 0) else 0
    pre = [1 + ctx.choice(6000, "prepos") for _ in range(npre)]
    ctx.enable_threads(policy, pre, os.path.join(patch.REPO, "canopen"))
    if ctx.choice(3, "stalls") == 1:
        ctx.stall = lambda: (0, 0, 0, 200 * US, 2 * MS)[ctx.choice(5, "stall")]
        ctx.fault("slow-task")
    chid = "simcan-c03"
    virtual.channels.pop(chid, None)
    nets = []

    buses = []

    def cleanup():
        virtual.channels.pop(chid, None)
        for b in buses:
            b._is_shutdown = True       # (keeps BusABC.__del__ quiet for buses of an aborted run)
            b._open = False
        for net in nets:
            n = net.notifier
            if n is not None:
                n._running = False
                try:
                    for b in (n.bus if isinstance(n.bus, tuple) else (n.bus,)):
                        can.Notifier._registry.unregister(b, n)
                except Exception:
                    pass
    ctx.cleanup.append(cleanup)
    buses += [virtual.VirtualBus(channel=chid), virtual.VirtualBus(channel=chid)]
    mnet = canopen.Network(buses[0])
    snet = canopen.Network(buses[1])
    nets += [mnet, snet]
    shared = build_od() if ctx.choice(2, "sharedod") else None
    base = 1 + ctx.choice(100, "base")
    ids = [base]
    for k in range(1, nclients):
        ids.append(ids[-1] + 1 + ctx.choice(3, "gap"))
    pairs = []
    for nid in ids:
        od = shared or build_od()
        r = canopen.RemoteNode(nid, od)
        mnet.add_node(r)
        l = canopen.LocalNode(nid, od)
        snet.add_node(l)
        pairs.append((r, l))
    mnet.connect()          # can.Notifier: one reader thread per network
    snet.connect()
    nnoise = ctx.choice(3, "noise") * 6
    free = [n for n in range(1, 128) if n not in ids]
    noise_plan = []
    for k in range(nnoise):
        kind = ctx.choice(5, "nkind")
        other = free[ctx.choice(len(free), "nid")]
        own = ids[ctx.choice(len(ids), "nn")]
        can_id, data = ((0x180 + other, bytes([k & 0xFF] * (1 + ctx.choice(8, "nl")))), (0x80 + own, bytes([0x10, 0x81, 1, 0, 0, 0, 0, k & 0xFF])),
                        (0x700 + own, bytes([5])), (0x580 + other, bytes([0x4F, 0, 0x20, 0, k & 0xFF, 0, 0, 0])),
                        (0x000, bytes([(0x81, 0x82, 0x01, 0x80)[k % 4], other])))[kind]
        noise_plan.append((ctx.choice(40, "nt") * 0.0005, can_id, data))
    if nnoise:
        ctx.probe("unrelated-traffic")
        nbus = virtual.VirtualBus(channel=chid)
        buses.append(nbus)

        def noise_body():
            for dt, can_id, data in noise_plan:
                ctx.sleep(dt)
                nbus.send(can.Message(arbitration_id=can_id, data=data, is_extended_id=False))
        ctx.spawn("noise", noise_body, daemon_task=True)
    nops = 1 + ctx.choice(4, "nops")
    plans = []
    for ci, (r, l) in enumerate(pairs):
        ops = []
        for _ in range(nops):
            path = PATHS[ctx.choice(len(PATHS), "p")]
            t = eff_type(ALL[ctx.choice(len(ALL), "t")], path)
            v, cls = gen_value(ctx, t, r.id)
            ops.append((t, path, v, cls, 1 + ctx.choice(4, "k")))
        plans.append(ops)

    def client(ci):
        r, l = pairs[ci]

        def body():
            for (t, path, v, cls, k) in plans[ci]:
                one_roundtrip(ctx, r, l, t, path, v, "client%d" % ci, k)
                ctx.cover(("V", t, path, cls if not cls.startswith("len") else "len", min(nclients, 4), npre))
        return body
    ctasks = [ctx.spawn("client%d" % ci, client(ci)) for ci in range(nclients)]
    closed = {}

    def closer():
        ctx.wait_until(lambda: all(t.state == "done" for t in ctasks), None, "closer")
        for name, net in (("master", mnet), ("slave", snet)):
            _, exc = call(net.disconnect)
            closed[name] = exc
    ctx.spawn("closer", closer)
    try:
        ctx.run_tasks()
    finally:
        if ctx.preemptions:
            ctx.probe("preempted", ctx.preemptions)
    for tsk in ctx.tasks:
        if tsk.exc is not None and not isinstance(tsk.exc, Violation) and not tsk.daemon_task:
            raise tsk.exc
    for name, exc in sorted(closed.items()):
        if exc is not None:
            ctx.violation("C03/disconnect-raised/%s@%s" % (type(exc).__name__, site(exc)),
                          "%s network: disconnect() after the transfers raised %r (an exception in the receive thread is re-raised there)" % (name, exc))
    for ci, (r, l) in enumerate(pairs):
        last = {}
        for (t, path, v, cls, k) in plans[ci]:
            _, index, sub = accessor(r.sdo, t, path, k)
            last[(index, sub)] = codec.encode(t, v)
        have = {(i, s2): bytes(d) for i, subs in l.data_store.items() for s2, d in subs.items()}
        if have != last:
            bad = [k for k in set(have) | set(last) if have.get(k) != last.get(k)][0]
            ctx.violation("C03/cross-talk", "node %d: object %04X:%02X holds %r, its own client wrote %r last (python-can virtual bus)" % (
                r.id, bad[0], bad[1], have.get(bad), last.get(bad)))
    _check_unwritten(ctx, pairs, plans, "Mode V")


def _mode_t(ctx):
    ctx.probe("mode-T")
    nclients = 1 + ctx.choice(8, "clients")
    policy = (0, 4, 16)[ctx.choice(3, "policy")]
    npre = ctx.choice(4, "npreempt") if (ctx.params.get("tier") == "thorough" or ctx.choice(4, "preq") == 0) else 0
    pre = [1 + ctx.choice(6000, "prepos") for _ in range(npre)]
    ctx.enable_threads(policy, pre, os.path.join(patch.REPO, "canopen"))
    if ctx.choice(3, "stalls") == 1:
        # slow tasks: a woken thread is scheduled late (well below the SDO time-out)
        ctx.stall = lambda: (0, 0, 0, 200 * US, 2 * MS)[ctx.choice(5, "stall")]
        ctx.fault("slow-task")
    ch = world.make_channel(ctx)
    ch.inline_mode = ctx.choice(3, "inline") == 1
    ch.unsafe_driver = ctx.choice(2, "unsafe") == 0
    mnet, mbus = world.make_network(ctx, ch, "master")
    snet, sbus = world.make_network(ctx, ch, "slave")
    shared = build_od() if ctx.choice(2, "sharedod") else None
    ids = []
    base = 1 + ctx.choice(100, "base")
    for k in range(nclients):
        ids.append(base + k * (1 + ctx.choice(3, "gap")) if k == 0 else ids[-1] + 1 + ctx.choice(3, "gap"))
    pairs = []
    for nid in ids:
        od = shared or build_od()
        r = canopen.RemoteNode(nid, od)
        mnet.add_node(r)
        l = canopen.LocalNode(nid, od)
        snet.add_node(l)
        pairs.append((r, l))
    ctx.probe("inline-delivery" if ch.inline_mode else "deferred-delivery")
    if nclients >= 4:
        ctx.probe("clients>=4")
    # unrelated traffic: PDO, EMCY, heartbeat and SDO frames of nodes that are not in use
    noise = PeerEndpoint(ch, "noise")
    nnoise = ctx.choice(3, "noise") * 8
    if nnoise:
        ctx.probe("unrelated-traffic")
    free = [n for n in range(1, 128) if n not in ids]

    def emit(k):
        def fn():
            kind = ctx.choice(6, "nkind")
            other = free[ctx.choice(len(free), "nid")]
            if kind == 5:
                # an NMT command for a node that is not in use (another master starting or resetting a neighbour)
                noise.send(0x000, bytes([(0x81, 0x82, 0x01, 0x80, 0x02)[ctx.choice(5, "ncs")], other]))
            elif kind == 0:
                noise.send(0x180 + other, bytes([k & 0xFF] * (1 + ctx.choice(8, "nl"))))
            elif kind == 1:
                noise.send(0x80 + ids[ctx.choice(len(ids), "nn")], bytes([0x10, 0x81, 1, 0, 0, 0, 0, k & 0xFF]))
            elif kind == 2:
                noise.send(0x700 + ids[ctx.choice(len(ids), "nn")], bytes([5]))
            elif kind == 3:
                noise.send(0x580 + other, bytes([0x4F, 0, 0x20, 0, k & 0xFF, 0, 0, 0]))
            else:
                noise.send(0x600 + other, bytes([0x40, 0, 0x20, 0, 0, 0, 0, 0]))
        return fn
    for k in range(nnoise):
        ctx.after(ctx.choice(40, "nt") * MS // 2, emit(k))
    nops = 1 + ctx.choice(4 if nclients > 4 else 8, "nops")
    # plan every task's work up front (tape order independent of the schedule)
    plans = []
    for ci, (r, l) in enumerate(pairs):
        ops = []
        for _ in range(nops):
            path = PATHS[ctx.choice(len(PATHS), "p")]
            t = eff_type(ALL[ctx.choice(len(ALL), "t")], path)
            v, cls = gen_value(ctx, t, r.id)
            ops.append((t, path, v, cls, 1 + ctx.choice(4, "k")))
        plans.append(ops)

    def client(ci):
        r, l = pairs[ci]

        def body():
            for (t, path, v, cls, k) in plans[ci]:
                one_roundtrip(ctx, r, l, t, path, v, "client%d" % ci, k)
                ctx.cover(("T", t, path, cls if not cls.startswith("len") else "len", ch.inline_mode, min(nclients, 4), npre))
        return body
    for ci in range(nclients):
        ctx.spawn("client%d" % ci, client(ci))
    try:
        ctx.run_tasks()
    finally:
        if ctx.preemptions:
            ctx.probe("preempted", ctx.preemptions)
    for tsk in ctx.tasks:
        if tsk.exc is not None and not isinstance(tsk.exc, Violation):
            raise tsk.exc
    # final cross-check: every node holds exactly what its own client wrote last
    for ci, (r, l) in enumerate(pairs):
        last = {}
        for (t, path, v, cls, k) in plans[ci]:
            _, index, sub = accessor(r.sdo, t, path, k)
            last[(index, sub)] = codec.encode(t, v)
        have = {(i, s): bytes(d) for i, subs in l.data_store.items() for s, d in subs.items()}
        if have != last:
            bad = [k for k in set(have) | set(last) if have.get(k) != last.get(k)][0]
            ctx.violation("C03/cross-talk", "node %d: object %04X:%02X holds %r, its own client wrote %r last" % (
                r.id, bad[0], bad[1], have.get(bad) and have[bad][:24].hex(), last.get(bad) and last[bad][:24].hex()))
    _check_unwritten(ctx, pairs, plans, "Mode T")
