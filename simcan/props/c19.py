"""C19 - CiA 402 state decoding and commanded transitions follow the drive state machine.

System: real BaseNode402 (+ real PDO and SDO layers) against RefDrive402
(reference drive with automatic transitions at tape-chosen instants, extra
status bits, control/statusword over SDO or PDO).  Virtual time for every
poll loop and time-out of the profile.
"""
import canopen
from canopen import objectdictionary as odm
from canopen.profiles.p402 import BaseNode402

from simcan import world
from simcan.bus import PeerEndpoint
from simcan.core import MS, SEC, US
from simcan.models.drive402 import (RefDrive402, decode_statusword, STATES, NRTSO, SOD, RTSO, SO, OE, QSA, FRA, FAULT, MODE_CODES, MODE_SUPPORT_BIT)
from simcan.util import call, site

ID = "C19"
LEVEL = "exploration"
BUDGET = {"quick": 40, "thorough": 480}
RULE = ("one run = a BaseNode402 set up against a reference drive (transport SDO / event-driven PDO / periodic PDO, processing and "
        "automatic-transition delays, extra status bits) and 1..3 operations (state assignment, operation-mode assignment, statusword "
        "decoding sweep); case key = (operation, drive state before, target or mode, transport, automatic-transition timing class, outcome); "
        "every key is an executed operation")
EXHAUSTIVE_CORE = ("all 65 536 statuswords (through the TPDO path; SDO path sampled); all 8 x 8 (drive state, target) pairs x 3 transports x 8 "
                   "automatic-transition timings; all 10 named operation modes x all 1024 supported-mode masks")
ASSUMPTIONS = [
    "RefDrive402 is my reading of CiA 402: statusword patterns, command coding on controlword bits 0-3 and 7, fault reset on the rising edge of bit 7, "
    "automatic transitions NOT READY -> SWITCH ON DISABLED and FAULT REACTION ACTIVE -> FAULT, 'switch on + enable operation' from READY TO SWITCH ON passes SWITCHED ON",
    "QUICK STOP ACTIVE is stable (quick stop option codes 5..8) so that 'reaches the target' is well defined",
    "drive delays stay below the library's own per-step time-outs; then a commandable target must be reached and the assignment must return normally",
    "a non-commandable target is judged only when the drive is not already reporting that very state (then the setter is a silent no-op: 'either')",
]
COMPONENTS = {
    "real": ["canopen.profiles.p402 (BaseNode402, State402, OperationMode)", "canopen.pdo (read, on_message, transmit, wait_for_reception)", "SDO client + typed accessors", "canopen.Network"],
    "stub": ["CAN backend (SimBus)", "can.Notifier", "time inside canopen.profiles.p402 / queue+time in sdo.client / threading.Condition in pdo.base (virtual clock)",
             "drive (RefDrive402 reference model incl. its SDO server)"],
}
PROBES = ["set-up-again-on-the-same-node-object", "pdos-present-but-switched-off", "transport-sdo", "transport-pdo-event", "transport-pdo-periodic", "auto-transition-during-assignment", "fault-reset", "fault-reset-without-edge",
          "refused-target", "detour", "mode-supported", "mode-unsupported", "decode-unknown"]
# probes that mark an injected disturbance; the runner also counts them as fired faults in the evidence
FAULT_PROBES = {'auto-transition-during-assignment': 'drive-changes-state-on-its-own',
 'fault-reset': 'drive-fault',
 'fault-reset-without-edge': 'drive-fault'}

TRANSPORTS = ("sdo", "pdo-event", "pdo-periodic")
COMMANDABLE = (SOD, RTSO, SO, OE, QSA)
AUTO = (100 * US, 400 * US, 700 * US, 1000 * US, 1300 * US, 5 * MS, 60 * MS, 150 * MS)
MODES = sorted(MODE_CODES)      # (reference table of the drive model, not the library's)


def jobs(tier, seed):
    enum = []
    for blk in range(16):
        enum.append((1, blk, 0, 0, 0))
    for s in range(8):
        for t in range(8):
            for tr in range(3):
                for a in range(8):
                    enum.append((2, s, t, tr, a))
    for mask in range(1024):
        enum.append((3, mask % 32, mask // 32, 0, 0))
    return enum, (30_000 if tier == "quick" else 800_000)


def build_od(with_pdo, map_mode):
    od = canopen.ObjectDictionary()
    od.add_object(world.var("Controlword", 0x6040, 0, odm.UNSIGNED16, "rw"))
    od.add_object(world.var("Statusword", 0x6041, 0, odm.UNSIGNED16, "ro"))
    od.add_object(world.var("Modes of operation", 0x6060, 0, odm.INTEGER8, "rw"))
    od.add_object(world.var("Modes of operation display", 0x6061, 0, odm.INTEGER8, "ro"))
    od.add_object(world.var("Supported drive modes", 0x6502, 0, odm.UNSIGNED32, "ro"))
    if with_pdo:
        pdos = [(0x1400, 0x1600, "RPDO1"), (0x1800, 0x1A00, "TPDO1")]
        if map_mode == 2:       # the mode objects travel in PDOs of their own
            pdos += [(0x1401, 0x1601, "RPDO2"), (0x1801, 0x1A01, "TPDO2")]
        for base_c, base_m, name in pdos:
            od.add_object(world.record(name + " comm", base_c, [
                world.var("n", base_c, 0, odm.UNSIGNED8, "ro"),
                world.var("COB-ID", base_c, 1, odm.UNSIGNED32, "rw"),
                world.var("Type", base_c, 2, odm.UNSIGNED8, "rw")]))
            od.add_object(world.record(name + " map", base_m, [world.var("n", base_m, 0, odm.UNSIGNED8, "rw")] +
                                       [world.var("e%d" % k, base_m, k, odm.UNSIGNED32, "rw") for k in range(1, 9)]))
    return od


class W:
    def __init__(self, ctx, transport, map_mode=0, auto=5 * MS):
        self.ctx = ctx
        self.ch = world.make_channel(ctx, swarm=False)
        self.net, self.bus = world.make_network(ctx, self.ch, "master")
        self.nid = 1 + ctx.choice(127, "node")
        # SDO transport comes in two set-ups: the device has no PDOs at all, or it has the usual RPDO1/TPDO1 with controlword and
        # statusword mapped but SWITCHED OFF (COB-ID bit 31 set) - nothing travels by PDO then either
        pdo_off = transport == "sdo" and ctx.choice(3, "pdo-present-but-off") == 1
        if pdo_off:
            ctx.probe("pdos-present-but-switched-off")
        with_pdo = transport != "sdo" or pdo_off
        self.node = BaseNode402(self.nid, build_od(with_pdo, map_mode))
        self.net.add_node(self.node)
        ep = PeerEndpoint(self.ch, "drive")
        d = RefDrive402(ctx, ep, self.nid, transport, proc_delay=(0, 500 * US, 3 * MS, 15 * MS)[ctx.choice(4, "proc")])
        d.auto_delay = auto
        d.map_mode = map_mode
        d.extra_src = lambda: ctx.choice(1 << 16, "extra") if ctx.choice(2, "extrabits") else 0
        self.drive = d
        s = d.srv.store
        if with_pdo:
            s[(0x1400, 0)] = b"\x02"
            s[(0x1400, 1)] = (d.rpdo_cob | (0x80000000 if pdo_off else 0)).to_bytes(4, "little")
            # event-driven RPDO: 255 (profile specific) or 254 (manufacturer specific) - both are sent on change, not on SYNC
            rtype = b"\xff" if (self.nid + map_mode) % 2 else b"\xfe"
            s[(0x1400, 2)] = rtype
            s[(0x1800, 0)] = b"\x02"
            s[(0x1800, 1)] = (d.tpdo_cob | (0x80000000 if pdo_off else 0)).to_bytes(4, "little")
            s[(0x1800, 2)] = b"\xff" if transport == "pdo-event" else b"\x01"
            rmap = [0x60400010] + ([0x60600008] if map_mode == 1 else [])
            tmap = [0x60410010] + ([0x60610008] if map_mode == 1 else [])
            maps = [(0x1600, rmap), (0x1A00, tmap)]
            if map_mode == 2:
                s[(0x1401, 0)] = b"\x02"
                s[(0x1401, 1)] = (d.rpdo2_cob | (0x80000000 if pdo_off else 0)).to_bytes(4, "little")
                s[(0x1401, 2)] = rtype
                s[(0x1801, 0)] = b"\x02"
                s[(0x1801, 1)] = (d.tpdo2_cob | (0x80000000 if pdo_off else 0)).to_bytes(4, "little")
                s[(0x1801, 2)] = s[(0x1800, 2)]
                maps += [(0x1601, [0x60600008]), (0x1A01, [0x60610008])]
            for base, mp in maps:
                s[(base, 0)] = bytes([len(mp)])
                for k in range(8):
                    s[(base, k + 1)] = (mp[k] if k < len(mp) else 0).to_bytes(4, "little")
        ctx.probe("transport-" + transport)

    def setup(self, initial):
        d = self.drive
        d.state = initial
        d.trace = []
        d.gen += 1
        if initial in (NRTSO, FRA):
            g = d.gen
            self.ctx.after(d.auto_delay, lambda: d._auto(g))
        # the application tells the library the node is up
        self.node.nmt.state = "PRE-OPERATIONAL"
        _, exc = call(self.node.setup_402_state_machine)
        if exc is not None:
            self.ctx.violation("C19/setup-raised/%s@%s" % (type(exc).__name__, site(exc)), "setup_402_state_machine() raised %r" % (exc,))
        if d.transport == "pdo-periodic":
            d.start_periodic()
            self.ctx.run_for(d.period + 1 * MS)     # the library has seen one report
        elif d.transport == "pdo-event":
            d.send_tpdo()
            if d.map_mode == 2:
                d.send_tpdo2()
        self.ctx.run_for(1 * MS)


def _assign(ctx, w, target, timing):
    d, node = w.drive, w.node
    before = d.state
    ncw = len(d.cw_log)
    cw_before = d.cw
    ntrace = len(d.trace)
    # what the library believes the drive reports (PDO transport: the cached
    # last report, which may lag the drive by a frame still on the wire)
    view_before = node.state if d.transport != "sdo" else None
    t0 = ctx.now

    ctx.op("node.state =", target, "drive in", before, d.transport)

    def do():
        node.state = target
    _, exc = call(do)
    took = ctx.now - t0
    ctx.run_for(30 * MS)
    trace = d.trace[ntrace:]
    cws = d.cw_log[ncw:]
    what = "drive %s (transport %s, proc %d us, auto %d us), node.state = %r: controlwords %s, drive trace %s" % (
        before, d.transport, d.proc_delay // 1000, d.auto_delay // 1000, target, ["0x%02X" % c for c, h in cws], trace)
    if any(st in (SOD, FAULT) and i > 0 for i, st in enumerate(trace)) or (before in (NRTSO, FRA) and trace):
        ctx.probe("auto-transition-during-assignment")
    outcome = "ok" if exc is None else type(exc).__name__
    ctx.cover(("assign", before, target, d.transport, timing, outcome))
    if target not in COMMANDABLE:
        # judged only when the drive is not already reporting that very state
        already = decode_statusword(d.statusword()) == target or before == target or target in trace or view_before == target
        if already:
            return
        if not isinstance(exc, ValueError):
            ctx.violation("C19/non-commandable-target-not-refused/%s" % target.replace(" ", "-"), "%s: outcome %r" % (what, exc))
        if cws:
            ctx.violation("C19/controlword-sent-for-refused-target/%s" % target.replace(" ", "-"), what)
        ctx.probe("refused-target")
        return
    if OE in trace and target not in (OE, QSA):
        ctx.violation("C19/operation-enabled-unasked/%s" % target.replace(" ", "-"), what)
    if exc is not None:
        cause = "%s@%s" % (type(exc).__name__, site(exc))
        if isinstance(exc, ValueError) and site(exc).endswith("_change_state") and str(exc).endswith("to None"):
            ctx.violation("C19/assignment-failed/state-decoded-from-several-statusword-reads",
                          "%s raised %r after %.3f s (the state getter fetched the statusword once per table row; the drive's automatic transition landed in between, so no row matched and the state read as UNKNOWN)" % (what, exc, took / SEC))
        if isinstance(exc, ValueError) and site(exc).endswith("_change_state"):
            ctx.violation("C19/assignment-failed/state-changed-between-two-status-reads",
                          "%s raised %r after %.3f s (an automatic transition landed between the library's two reads of the state)" % (what, exc, took / SEC))
        if d.state == FAULT and cws and all(c & 0x80 for c, h in cws) and cw_before & 0x80:
            ctx.violation("C19/assignment-failed/fault-reset-without-rising-edge",
                          "%s raised %r after %.3f s: the controlword already had bit 7 set (0x%04X) and the library wrote 0x80 again - a conformant drive needs a rising edge" % (what, exc, took / SEC, cw_before))
        ctx.violation("C19/assignment-failed/%s/%s" % (cause, "from-" + before.replace(" ", "-") if before in (NRTSO, FRA, FAULT) else "regular"),
                      "%s raised %r after %.3f s" % (what, exc, took / SEC))
    if d.state != target:
        ctx.violation("C19/target-not-reached", "%s: the drive is in %s" % (what, d.state))
    if len(trace) > 12:
        ctx.violation("C19/endless-transitions", what)
    if before == FAULT and target != FAULT:
        ctx.probe("fault-reset")
    if len(trace) > 1 + (0 if before not in (NRTSO, FRA) else 1) and target in (SOD,):
        ctx.probe("detour")


def scenario(ctx):
    mode = ctx.choice(4, "mode")
    a = ctx.choice(32, "a")
    b = ctx.choice(32, "b")
    c = ctx.choice(3, "c")
    e = ctx.choice(8, "e")
    if mode == 1:
        # statusword decoding sweep: 4096 words through the TPDO path, 64 of them also by SDO
        w = W(ctx, "pdo-event")
        w.setup(SOD)
        node, d = w.node, w.drive
        blk = a % 16
        for sw in range(blk * 4096, blk * 4096 + 4096):
            d.ep.send(d.tpdo_cob, sw.to_bytes(2, "little"))
            ctx.run_for(150 * US)
            got = node.state
            exp = decode_statusword(sw)
            if got != exp:
                ctx.violation("C19/statusword-decoding/%s" % exp.replace(" ", "-"), "statusword 0x%04X is reported as %r, CiA 402 says %r" % (sw, got, exp))
            if exp == "UNKNOWN":
                ctx.probe("decode-unknown")
        ctx.cover(("decode", blk))
        w2 = W(ctx, "sdo")
        w2.setup(SOD)
        for k in range(64):
            sw = blk * 4096 + ctx.choice(4096, "sw")
            w2.drive.srv.read_hook = (lambda i, s, v=sw: v.to_bytes(2, "little") if (i, s) == (0x6041, 0) else w2.drive._read(i, s))
            got = w2.node.state
            if got != decode_statusword(sw):
                ctx.violation("C19/statusword-decoding/%s" % decode_statusword(sw).replace(" ", "-"), "statusword 0x%04X (SDO) is reported as %r" % (sw, got))
        return
    if mode == 3:
        mask_bits = (a % 32) | (b % 32) << 5
        # spread the 10 mask bits over the CiA 402 bit positions 0,1,2,3,5,6,7,8,9 (+ bit 4 unused)
        positions = (0, 1, 2, 3, 5, 6, 7, 8, 9, 4)
        supported = 0
        for k in range(10):
            if mask_bits >> k & 1:
                supported |= 1 << positions[k]
        w = W(ctx, TRANSPORTS[ctx.choice(3, "tr")], map_mode=ctx.choice(3, "mapmode"))
        w.drive.supported = supported
        w.drive.mode_delay = (200 * US, 5 * MS, 100 * MS)[ctx.choice(3, "mdelay")]
        w.setup(SOD)
        node, d = w.node, w.drive
        for name in MODES:
            code = MODE_CODES[name]
            bits = MODE_SUPPORT_BIT[name]
            ok = supported & bits == bits
            nw = len(d.mode_writes)

            def do():
                node.op_mode = name
            _, exc = call(do)
            ctx.run_for(5 * MS)
            what = "op_mode = %r with supported-mode mask 0x%04X (transport %s, map_mode %s)" % (name, supported, d.transport, d.map_mode)
            writes = d.mode_writes[nw:]
            if not ok:
                if not isinstance(exc, TypeError):
                    ctx.violation("C19/unsupported-mode-not-refused", "%s: outcome %r" % (what, exc))
                if writes:
                    ctx.violation("C19/unsupported-mode-written", "%s: the drive received %r" % (what, writes))
                ctx.probe("mode-unsupported")
            else:
                if exc is not None:
                    ctx.violation("C19/mode-assignment-raised/%s@%s" % (type(exc).__name__, site(exc)), "%s raised %r" % (what, exc))
                if not writes or writes[-1][0] != code:
                    ctx.violation("C19/mode-code-not-written", "%s: the drive received %r, CiA 402 code is %d" % (what, writes, code))
                ctx.probe("mode-supported")
            ctx.cover(("mode", name, ok, d.transport, d.map_mode))
        return
    if mode == 2:
        initial, target, transport, timing = STATES[a % 8], STATES[b % 8], TRANSPORTS[c], e
        w = W(ctx, transport, auto=AUTO[timing] + ctx.choice(30, "jitter") * 50 * US)
        w.setup(initial)
        _assign(ctx, w, target, timing)
        return
    # seeded: up to 3 assignments with drive-side events in between
    transport = TRANSPORTS[ctx.choice(3, "tr")]
    timing = ctx.choice(8, "timing")
    w = W(ctx, transport, map_mode=ctx.choice(3, "mapmode"), auto=AUTO[timing] + ctx.choice(30, "jitter") * 50 * US)
    w.setup(STATES[ctx.choice(8, "initial")])
    if ctx.choice(4, "oldcw") == 0:
        # the controlword register still holds a fault-reset request from an earlier session
        w.drive.cw = 0x80
        ctx.probe("fault-reset-without-edge")
    for k in range(1 + ctx.choice(3, "nassign")):
        with ctx.span("assign"):
            if ctx.choice(5, "fault") == 0 and w.drive.state not in (FAULT, FRA, NRTSO):
                w.drive.fault()
                # the drive's report of the fault reaches the library before the
                # next assignment starts (the library cannot act on a frame that
                # is still on the wire); the automatic transition to FAULT happens
                # either before or during that assignment
                ctx.run_for(w.drive.auto_delay + 12 * MS if ctx.choice(2, "waitfault") else 1 * MS)
                if w.drive.transport == "pdo-periodic":
                    ctx.run_for(w.drive.period)
            elif k > 0 and ctx.choice(5, "restart") == 0:
                # the drive is power-cycled between two assignments: its controlword register is 0 again and it reports
                # NOT READY TO SWITCH ON, then SWITCH ON DISABLED (reported before the next assignment starts, or during it)
                w.drive.restart()
                ctx.fault("drive-restarts")
                ctx.run_for(w.drive.auto_delay + 12 * MS if ctx.choice(2, "waitrestart") else 1 * MS)
                if w.drive.transport == "pdo-periodic":
                    ctx.run_for(w.drive.period)
                if ctx.choice(2, "setup-again") == 1:
                    # the application sets the 402 state machine up again on the SAME node object, as it does after a power cycle
                    _, exc = call(w.node.setup_402_state_machine)
                    if exc is not None:
                        ctx.violation("C19/setup-raised/%s@%s" % (type(exc).__name__, site(exc)), "second setup_402_state_machine() raised %r" % (exc,))
                    ctx.run_for(w.drive.auto_delay + 12 * MS)
                    if w.drive.transport == "pdo-event":
                        w.drive.send_tpdo()
                        if w.drive.map_mode == 2:
                            w.drive.send_tpdo2()
                    elif w.drive.transport == "pdo-periodic":
                        ctx.run_for(w.drive.period + 1 * MS)
                    ctx.run_for(1 * MS)
                    ctx.probe("set-up-again-on-the-same-node-object")
            tgt = STATES[ctx.choice(8, "target")] if ctx.choice(4, "anytarget") == 0 else COMMANDABLE[ctx.choice(5, "ctarget")]
            _assign(ctx, w, tgt, timing)
