"""C15 - A PDO value set by the producer is the value the consumer reads.

System: all real - a producing node and a consuming node on two Networks of
one simulated segment (LocalNode.tpdo -> RemoteNode.tpdo, RemoteNode.rpdo ->
LocalNode.rpdo).  The configuration is established by attributes or through
the real save()/read().  Reference: the bus log, the value the producer
assigned, a timestamp/callback/waiter model.
"""
import struct

import canopen
from canopen import objectdictionary as odm

from simcan import world
from simcan.core import MS, SEC, US
from simcan.models import codec, pdo_bits
from simcan.util import call, site

ID = "C15"
LEVEL = "exploration"
BUDGET = {"quick": 35, "thorough": 420}
RULE = ("one run = a producer/consumer pair with 1..3 maps (distinct or colliding COB-IDs), a generated mapping (1..8 objects, full or "
        "sub-byte lengths) and a history of set-values / transmit / start / stop / remote_request / reconfigure / enable / disable / "
        "wait_for_reception steps; case key = (direction, step kind, layout class [aligned, sub-byte fields, unaligned multi-byte], "
        "#maps on the COB-ID, outcome); every key is an executed step")
EXHAUSTIVE_CORE = ("every single mapped object of every integer type, BOOLEAN and REAL32/64 at byte offset 0 with its boundary values, and "
                   "every sub-byte length 1..7 of the 8-bit types at every bit offset 0..7, both directions")
ASSUMPTIONS = [
    "the consumer must read what the producer assigned (type-aware equality); the frame on the bus must equal the producer map's data and COB-ID at "
    "the instant of transmission; the reference bit layout (models/pdo_bits.py) is only reported as an observation - bit placement is C05's subject",
    "values are drawn from the range of the mapped bit length (sub-byte fields) or of the data type",
    "wait_for_reception: frames delivered within one latency of the call or of the deadline count as 'either' (Mode I)",
]
COMPONENTS = {
    "real": ["canopen.pdo.base (PdoMap.on_message/transmit/start/stop/remote_request/wait_for_reception/subscribe/save/read, PdoVariable.get_data/set_data)",
             "canopen.pdo (TPDO/RPDO/PDO lookup)", "RemoteNode / LocalNode", "canopen.Network", "SDO client+server for save()"],
    "stub": ["CAN backend (SimBus)", "can.Notifier", "threading.Condition in canopen.pdo.base (simulator primitive)", "python-can cyclic task (SimCyclicTask)"],
}
PROBES = ["tpdo-direction", "rpdo-direction", "config-by-save-read", "colliding-cob-ids", "sub-byte-field", "unaligned-multibyte", "callback", "rtr-sent",
          "rtr-suppressed", "reconfigured", "frame-on-old-cob-id", "wait-returned", "wait-none", "periodic", "mode-T", "two-waiters", "configuration-reapplied-on-one-side", "node-reattached", "frame-handled-inside-callback", "nmt-traffic-of-the-same-node"]

TYPES8 = (odm.UNSIGNED8, odm.INTEGER8, odm.BOOLEAN)
FULL = [odm.UNSIGNED8, odm.INTEGER8, odm.BOOLEAN, odm.UNSIGNED16, odm.INTEGER16, odm.UNSIGNED24, odm.INTEGER24, odm.UNSIGNED32, odm.INTEGER32,
        odm.UNSIGNED40, odm.INTEGER40, odm.UNSIGNED48, odm.INTEGER48, odm.UNSIGNED56, odm.INTEGER56, odm.UNSIGNED64, odm.INTEGER64, odm.REAL32, odm.REAL64]
BITS = {t: (8 if t == odm.BOOLEAN else (codec.INTS[t] if t in codec.INTS else (32 if t == odm.REAL32 else 64))) for t in FULL}


def jobs(tier, seed):
    enum = []
    for d in range(2):
        for ti in range(len(FULL)):
            enum.append((1, d, ti, 0, 0))
        for ti in range(3):
            for ln in range(1, 8):
                for off in range(8):
                    enum.append((2, d, ti, ln, off))
    return enum, (100_000 if tier == "quick" else 2_000_000)


def build_od():
    od = canopen.ObjectDictionary()
    for k, t in enumerate(FULL):
        for c in range(2):      # two objects of every type
            od.add_object(world.var("V%02X_%d" % (t, c), 0x2000 + 2 * k + c, 0, t))
    for base_c, base_m, name in ((0x1400, 0x1600, "RPDO"), (0x1800, 0x1A00, "TPDO")):
        for n in range(3):
            od.add_object(world.record("%s%d comm" % (name, n + 1), base_c + n, [
                world.var("n", base_c + n, 0, odm.UNSIGNED8, "ro", default=2),
                world.var("COB-ID", base_c + n, 1, odm.UNSIGNED32, "rw", default=0x80000000),
                world.var("Type", base_c + n, 2, odm.UNSIGNED8, "rw", default=255)]))
            od.add_object(world.record("%s%d map" % (name, n + 1), base_m + n,
                                       [world.var("n", base_m + n, 0, odm.UNSIGNED8, "rw", default=0)] +
                                       [world.var("e%d" % k, base_m + n, k, odm.UNSIGNED32, "rw", default=0) for k in range(1, 9)]))
    return od


def obj_index(t, c=0):
    return 0x2000 + 2 * FULL.index(t) + c


def gen_layout(ctx, forced=None):
    """list of (data type, object copy, bit length)"""
    if forced is not None:
        return forced
    n = 1 + ctx.choice(8, "nobj")
    out = []
    bits = 0
    used = {}
    style = ctx.choice(3, "style")      # 0 byte aligned full objects, 1 with sub-byte fields, 2 anything
    for _ in range(n):
        if style == 0:
            t = FULL[ctx.choice(len(FULL), "t")]
            ln = BITS[t]
        else:
            t = FULL[ctx.choice(len(FULL), "t")] if ctx.choice(2, "wide") else TYPES8[ctx.choice(3, "t8")]
            ln = BITS[t]
            if t in TYPES8 and ctx.choice(2, "subbyte"):
                ln = 1 + ctx.choice(7, "ln")
            # (custom bit lengths of multi-byte objects are not among the layouts the
            # property quantifies over - "own bit length, BOOLEAN as one bit, sub-byte
            # fields of 8-bit objects" - and the library does not support them)
            if t == odm.BOOLEAN and ctx.choice(2, "bool1"):
                ln = 1
        c = used.get(t, 0)
        if c > 1 or bits + ln > 64:
            continue
        used[t] = c + 1
        out.append((t, c, ln))
        bits += ln
    if not out:
        out = [(odm.UNSIGNED8, 0, 8)]
    return out


def layout_class(layout):
    off = 0
    sub = False
    unaligned = False
    for t, c, ln in layout:
        if ln % 8:
            sub = True
        if ln > 8 and off % 8:
            unaligned = True
        if ln == 8 and off % 8:
            unaligned = unaligned or False
        off += ln
    return "unaligned-multibyte" if unaligned else ("sub-byte" if sub else "aligned")


def gen_field_value(ctx, t, ln):
    if t == odm.BOOLEAN:
        return bool(ctx.choice(2, "bv"))
    if t in (odm.REAL32, odm.REAL64):
        vals = (0.0, 1.0, -2.5, 1e10, -0.0, 1.5)
        return vals[ctx.choice(len(vals), "fv")]
    signed = t in codec.SIGNED
    lo, hi = (-(1 << (ln - 1)), (1 << (ln - 1)) - 1) if signed else (0, (1 << ln) - 1)
    k = ctx.choice(8, "vk")
    if k == 0:
        return lo
    if k == 1:
        return hi
    if k == 2:
        return 0
    if k == 3:
        return -1 if signed else 1
    if k == 4:
        return lo + 1
    return lo + ctx.choice(hi - lo + 1, "vv")


def same(t, a, b):
    if t in (odm.REAL32, odm.REAL64):
        fmt = "<f" if t == odm.REAL32 else "<d"
        try:
            return struct.pack(fmt, a) == struct.pack(fmt, b)
        except Exception:
            return False
    if t == odm.BOOLEAN:
        return bool(a) == bool(b)
    return a == b


class Pair:
    """producer map / consumer map of one PDO number in one direction"""

    def __init__(self, w, direction, number):
        self.direction = direction
        self.number = number
        if direction == "tpdo":
            self.prod = w.local.tpdo[number]
            self.cons = w.remote.tpdo[number]
            self.prod_bus, self.cons_bus = "slave", "master"
            self.cons_net = w.mnet
        else:
            self.prod = w.remote.rpdo[number]
            self.cons = w.local.rpdo[number]
            self.prod_bus, self.cons_bus = "master", "slave"
            self.cons_net = w.snet
        self.layout = []
        self.values = []        # last assigned value per variable (None = never assigned)
        self.cb_log = []
        self.cb_installed = False
        self.old_cob_ids = []
        # the COB-ID the consuming map has been subscribed to through the API (subscribe() / read() / save() of an
        # enabled map), or None when that is not known (never configured, or its node was taken off the network since)
        self.must_consume = None


class W:
    def __init__(self, ctx):
        self.ctx = ctx
        self.ch = world.make_channel(ctx, swarm=False)
        self.mnet, self.mbus = world.make_network(ctx, self.ch, "master")
        self.snet, self.sbus = world.make_network(ctx, self.ch, "slave")
        self.nid = 1 + ctx.choice(127, "node")
        self.remote = canopen.RemoteNode(self.nid, build_od())
        self.mnet.add_node(self.remote)
        self.local = canopen.LocalNode(self.nid, build_od())
        self.snet.add_node(self.local)
        # receive timestamps as the driver delivers them: exact, from a coarse clock, or always 0.0 (a driver without timestamps)
        self.ch.ts_quantum = (0, 0, 0, 0, 1 * MS, -1)[ctx.choice(6, "tsq")]


def configure(ctx, w, pair, cob_id, layout, enabled=True, rtr=True, via_save=False):
    """give both maps the same configuration"""
    ttype = (255, 254, 253, 252, 1, 0)[ctx.choice(6, "ttype")]

    def apply(m):
        m.cob_id = cob_id
        m.enabled = enabled
        m.rtr_allowed = rtr
        m.trans_type = ttype
        m.clear()
        for (t, c, ln) in layout:
            if ln == BITS[t] and ctx.choice(2, "implicit"):
                m.add_variable(obj_index(t, c))
            else:
                m.add_variable(obj_index(t, c), 0, ln)
    if pair.prod.cob_id is not None and pair.prod.cob_id != cob_id:
        pair.old_cob_ids.append(pair.prod.cob_id)
    rmap = pair.cons if pair.direction == "tpdo" else pair.prod
    lmap = pair.prod if pair.direction == "tpdo" else pair.cons
    apply(rmap)
    if ctx.choice(3, "reapply") == 0:
        # the same configuration applied once more on one side only (clear() and the same add_variable calls):
        # harmless, unless a map keeps something from its previous layout
        apply(rmap)
        ctx.probe("configuration-reapplied-on-one-side")
    if via_save:
        _, exc = call(rmap.save)
        if exc is not None:
            ctx.violation("C15/save-raised/%s@%s" % (type(exc).__name__, site(exc)), "save() of %s%d raised %r" % (pair.direction, pair.number, exc))
        _, exc = call(lmap.read)
        if exc is not None:
            ctx.violation("C15/read-raised/%s@%s" % (type(exc).__name__, site(exc)), "read() of the local %s%d raised %r" % (pair.direction, pair.number, exc))
        ctx.probe("config-by-save-read")
    else:
        apply(lmap)
        rmap.subscribe()
        lmap.subscribe()
    pair.layout = list(layout)
    pair.values = [None] * len(layout)
    if enabled:
        pair.must_consume = cob_id
    elif pair.must_consume != cob_id:
        pair.must_consume = None        # (a subscription outlives 'enabled = False' on the same COB-ID)
    if not pair.cb_installed and ctx.choice(2, "cb"):
        def cb(m, p=pair):
            p.cb_log.append(m)
            f, p.reenter = getattr(p, "reenter", None), None
            if f is not None:
                f()
        pair.cons.add_callback(cb)
        pair.cb_installed = True
        ctx.probe("callback")


def assign(ctx, pair, what):
    """set some or all producer variables"""
    off = 0
    for i, (t, c, ln) in enumerate(pair.layout):
        if pair.values[i] is None or ctx.choice(2, "reassign"):
            v = gen_field_value(ctx, t, ln)
            try:
                pair.prod[i].raw = v
            except Exception as e:      # noqa
                cls = layout_class(pair.layout)
                ctx.violation("C15/assign-raised/%s@%s/%s" % (type(e).__name__, site(e), cls),
                              "%s: assigning %r to %s (%d bits at bit offset %d, layout %s) raised %r" % (
                                  what, v, codec.NAMES.get(t, hex(t)), ln, off, [(codec.NAMES.get(x[0]), x[2]) for x in pair.layout], e))
            pair.values[i] = v
        off += ln


def expected_consumers(w, pairs, can_id, cons_bus):
    """maps (on the consuming side) that are subscribed to this COB-ID right now
    and whose COB-ID it is (a subscription outlives a later 'enabled = False')"""
    return [p for p in pairs if p.cons_bus == cons_bus and p.cons.cob_id == can_id
            and p.cons.on_message in p.cons_net.subscribers.get(can_id, [])]


def transmit_and_check(ctx, w, pairs, pair, what, periodic=False):
    prod, cons = pair.prod, pair.cons
    mark = w.ch.n
    before = {id(p): (bytes(p.cons.data), p.cons.timestamp, len(p.cb_log)) for p in pairs}
    if not periodic:
        _, exc = call(prod.transmit)
        if exc is not None:
            ctx.violation("C15/transmit-raised/%s@%s" % (type(exc).__name__, site(exc)), "%s: transmit() raised %r" % (what, exc))
    ctx.run_for(2 * MS)
    frames = [f for f in w.ch.frames(since=mark) if f.src == pair.prod_bus and not f.rtr]
    if not periodic:
        if len(frames) != 1 or frames[0].can_id != prod.cob_id or frames[0].data != bytes(prod.data):
            ctx.violation("C15/transmitted-frame", "%s: transmit() put %r on the bus; the map has COB-ID 0x%X and data %s" % (what, frames, prod.cob_id, bytes(prod.data).hex()))
    if not frames:
        return
    fr = frames[-1]
    # observation only: reference bit layout
    off = 0
    for i, (t, c, ln) in enumerate(pair.layout):
        v = pair.values[i]
        if v is not None and t not in (odm.REAL32, odm.REAL64) and len(fr.data) * 8 >= off + ln:
            ref = pdo_bits.extract(fr.data, off, ln, t in codec.SIGNED)
            if ref != (int(v) if not isinstance(v, bool) else int(v)):
                ctx.observe("frame bits differ from the reference layout (C05's subject)")
        off += ln
    # every consumer map subscribed to this COB-ID (and only those) took the frame
    exp = expected_consumers(w, pairs, fr.can_id, pair.cons_bus)
    ts = None
    for p in pairs:
        b = before[id(p)]
        changed = (bytes(p.cons.data), p.cons.timestamp) != b[:2] or len(p.cb_log) != b[2]
        if p in exp:
            stamp = (w.mbus if p.cons_bus == "master" else w.sbus).rx_stamp.get(fr.can_id)
            if stamp is not None and p.cons.timestamp != stamp:
                ctx.violation("C15/consumer-timestamp", "%s: consumer %s%d has timestamp %r, the frame was received with timestamp %r" % (what, p.direction, p.number, p.cons.timestamp, stamp))
            if bytes(p.cons.data) != fr.data or p.cons.timestamp is None or (p.cons.timestamp == b[1] and not w.ch.ts_quantum):
                ctx.violation("C15/consumer-not-updated", "%s: consumer %s%d (COB-ID 0x%X, subscribed) holds data %s timestamp %r after frame %r" % (
                    what, p.direction, p.number, p.cons.cob_id, bytes(p.cons.data).hex(), p.cons.timestamp, fr))
            if p.cb_installed and len(p.cb_log) != b[2] + len(frames):
                ctx.violation("C15/callback-count", "%s: callback of %s%d ran %d times for %d frame(s)" % (what, p.direction, p.number, len(p.cb_log) - b[2], len(frames)))
        elif changed and p.cons_bus == pair.cons_bus:
            ctx.violation("C15/wrong-map-updated", "%s: frame %r changed %s%d whose COB-ID is %s (enabled=%s)" % (
                what, fr, p.direction, p.number, None if p.cons.cob_id is None else hex(p.cons.cob_id), p.cons.enabled))
    for p in pairs:
        if p.cons_bus == pair.cons_bus and p.must_consume == fr.can_id and p.cons.cob_id == fr.can_id and p not in exp:
            ctx.violation("C15/consumer-not-subscribed", "%s: %s%d was enabled and subscribed (subscribe() / read() / save()) with COB-ID 0x%X, but frame %r did not reach it" % (
                what, p.direction, p.number, fr.can_id, fr))
    if len(exp) > 1:
        ctx.probe("colliding-cob-ids")
    # values
    if pair in exp:
        off = 0
        for i, (t, c, ln) in enumerate(pair.layout):
            v = pair.values[i]
            if v is not None:
                try:
                    got = cons[i].raw
                except Exception as e:      # noqa
                    ctx.violation("C15/consumer-read-raised/%s@%s/%s" % (type(e).__name__, site(e), layout_class(pair.layout)),
                                  "%s: reading %s (%d bits at bit offset %d, layout %s) on the consumer raised %r; frame %s" % (
                                      what, codec.NAMES.get(t, hex(t)), ln, off, [(codec.NAMES.get(x[0]), x[2]) for x in pair.layout], e, fr.data.hex()))
                if not same(t, v, got):
                    signed = t in codec.SIGNED
                    cls = layout_class(pair.layout)
                    detail = "most-negative" if (signed and ln < BITS[t] and v == -(1 << (ln - 1))) else cls
                    ctx.violation("C15/consumer-reads-other-value/%s" % detail,
                                  "%s: producer wrote %r to %s (%d bits at bit offset %d), consumer reads %r; frame %s; layout %s" % (
                                      what, v, codec.NAMES.get(t, hex(t)), ln, off, got, fr.data.hex(), [(codec.NAMES.get(x[0]), x[2]) for x in pair.layout]))
            off += ln
        if cons.timestamp is None:
            ctx.violation("C15/consumer-timestamp", "%s: no timestamp" % what)


def _mode_t(ctx, direction):
    """Mode T: a producer task transmits while a waiter task sits in
    wait_for_reception; receive tasks deliver; the seeded scheduler decides the
    interleaving.  Judged: a returned timestamp belongs to a frame received
    after the waiter entered the wait; None only if nothing was received
    between entering the wait and its deadline."""
    import os
    from simcan import patch
    npre = ctx.choice(3, "npreempt") if ctx.choice(3, "preq") == 0 else 0
    ctx.enable_threads((0, 4, 16)[ctx.choice(3, "policy")], [1 + ctx.choice(3000, "prepos") for _ in range(npre)],
                       os.path.join(patch.REPO, "canopen"))
    if ctx.choice(3, "stalls") == 1:
        # slow tasks: a woken thread is scheduled late
        ctx.stall = lambda: (0, 0, 0, 200 * US, 2 * MS)[ctx.choice(5, "stall")]
        ctx.fault("slow-task")
    w = W(ctx)
    pair = Pair(w, direction, 1)
    configure(ctx, w, pair, 0x180 + w.nid if direction == "tpdo" else 0x200 + w.nid, gen_layout(ctx), via_save=False)
    cons, prod = pair.cons, pair.prod
    receptions = []         # (virtual time, timestamp) logged inside on_message
    def on_rx(m):
        receptions.append((ctx.now, m.timestamp))
        if slow_callback:
            ctx.tick(slow_callback)     # the application's callback does some work (a scheduling point)
    slow_callback = (0, 20 * US, 300 * US)[ctx.choice(3, "slowcb")]
    cons.add_callback(on_rx)
    entries = {}            # task name -> instants at which that caller entered Condition.wait
    cond = cons.receive_condition
    orig_wait = cond.wait

    def wait_logged(timeout=None):
        entries.setdefault(ctx.current.name, []).append(ctx.now)
        return orig_wait(timeout)
    cond.wait = wait_logged

    def unhook():
        # (a changed library may share this Condition between maps and so between runs: never leave the hook on it)
        try:
            del cond.wait
        except AttributeError:
            pass
    ctx.cleanup.append(unhook)
    nframes = ctx.choice(5, "nframes")
    gaps = [ctx.choice(6, "gap") for _ in range(nframes)]
    fine = [ctx.choice(200, "gapfine") * 5e-6 for _ in range(nframes)]
    nwaiters = 1 + (ctx.choice(3, "nwaiters") == 0)     # a third of the runs: two caller threads wait on the same map
    plans = []
    for _ in range(nwaiters):
        nwaits = 1 + ctx.choice(3, "nwaits")
        timeouts = [(0.002, 0.02, 0.2)[ctx.choice(3, "timeout")] for _ in range(nwaits)]
        # the waiter does something else between two waits, so that it may enter a
        # wait while a frame is just being processed by the receive task
        think = [ctx.choice(400, "think") * 5e-6 if ctx.choice(2, "thinks") else 0 for _ in range(nwaits)]
        plans.append((timeouts, think))
    if nwaiters > 1:
        # The map has ONE is_received flag, cleared by whoever enters a wait: with several readers a
        # reader that starts (another) wait can clear it before a reader that was just woken has looked
        # at it.  The quantifier speaks of one waiting thread, so that is not judged.  What is judged
        # with two readers is the schedule-independent case: both are inside their only wait before
        # the first frame arrives, and each must be woken by it.
        plans = [([0.2], [0]) for _ in range(nwaiters)]
        if gaps:
            gaps[0] = max(gaps[0], 2)
    results = []
    snaps = []

    def producer():
        for g, f in zip(gaps, fine):
            prims_sleep((0, 0.0005, 0.003, 0.015, 0.05, 0.3)[g] + f)
            assign(ctx, pair, "producer task")
            snaps.append(list(pair.values))
            prod.transmit()

    def prims_sleep(sec):
        ctx.sleep(sec)

    def waiter(k):
        name = "waiter%d" % k
        timeouts, think = plans[k]

        def body():
            for to, th in zip(timeouts, think):
                if th:
                    ctx.sleep(th)
                t0 = ctx.now
                mine = entries.setdefault(name, [])
                n0 = len(mine)
                r = cons.wait_for_reception(to)
                results.append((t0, mine[n0] if len(mine) > n0 else None, ctx.now, to, r))
        return name, body
    ctx.spawn("producer", producer)
    for k in range(nwaiters):
        ctx.spawn(*waiter(k))
    if nwaiters > 1:
        ctx.probe("two-waiters")
    ctx.run_tasks()
    for t in ctx.tasks:
        if t.exc is not None:
            raise t.exc
    for (t0, entered, t1, to, r) in results:
        what = "Mode T %s: wait_for_reception(%s) called at %.6f, waiting from %s, returned %r at %.6f; receptions %s" % (
            direction, to, t0 / SEC - 1000, None if entered is None else "%.6f" % (entered / SEC - 1000), r, t1 / SEC - 1000,
            ["%.6f" % (a / SEC - 1000) for a, b in receptions])
        if entered is None:
            ctx.violation("C15/waiter-never-waited", what)
        window = [(a, ts) for a, ts in receptions if entered <= a < entered + int(to * SEC)]
        if r is None:
            if window:
                ctx.violation("C15/waiter-not-woken", what)
            if t1 < entered + int(to * SEC):
                ctx.violation("C15/waiter-returned-none-before-timeout", what)
            ctx.probe("wait-none")
        else:
            ok = [ts for a, ts in receptions if a >= entered and a <= t1 and ts == r]
            if not ok:
                ctx.violation("C15/waiter-timestamp", what)
            # woken BY the frame, not by its own time-out: once the frame has been handled the reader only needs the
            # map's lock (callbacks: < 1 ms) and the processor (stalls: <= 2 ms per wake-up) - 50 ms is far beyond both
            if window and t1 > window[0][0] + 50 * MS and entered + int(to * SEC) > window[0][0] + 50 * MS:
                ctx.violation("C15/waiter-woken-late", what + " - the reader came back %.1f ms after the first frame of its wait" % ((t1 - window[0][0]) / MS))
            ctx.probe("wait-returned")
        ctx.cover((direction, "T-wait", len(window) > 0, r is not None, npre))
    # and the data the consumer holds is the last frame's
    if receptions:
        vals = snaps[len(receptions) - 1]       # (the last frame may still be on the wire when both tasks are done)
        for i, (t, c, ln) in enumerate(pair.layout):
            v = vals[i]
            if v is not None and not same(t, v, cons[i].raw):
                ctx.violation("C15/consumer-reads-other-value/mode-T", "after %d of %d frames: producer's value %r, consumer reads %r" % (len(receptions), len(snaps), v, cons[i].raw))


def scenario(ctx):
    mode = ctx.choice(4, "mode")
    d = ctx.choice(2, "dir")
    ti = ctx.choice(len(FULL), "ti")
    fl = ctx.choice(8, "fl")
    fo = ctx.choice(8, "fo")
    direction = ("tpdo", "rpdo")[d]
    if mode == 3:
        ctx.probe("mode-T")
        return _mode_t(ctx, direction)
    w = W(ctx)
    ctx.probe(direction + "-direction")
    if mode in (1, 2):
        pair = Pair(w, direction, 1)
        pairs = [pair]
        if mode == 1:
            t = FULL[ti % len(FULL)]
            layout = [(t, 0, BITS[t])]
        else:
            t = TYPES8[ti % 3]
            ln = 1 + (fl - 1) % 7 if fl else 1
            off = fo % 8
            layout = ([(odm.UNSIGNED8, 0, off)] if off and t != odm.UNSIGNED8 else ([(odm.INTEGER8, 0, off)] if off else [])) + [(t, 1 if False else 0, ln)]
            if off and layout[0][0] == t:
                layout[1] = (t, 1, ln)
            ctx.probe("sub-byte-field")
        configure(ctx, w, pair, 0x180 + w.nid if direction == "tpdo" else 0x200 + w.nid, layout, via_save=bool(fl % 2))
        rounds = 8
        for r in range(rounds):
            assign(ctx, pair, "round %d" % r)
            transmit_and_check(ctx, w, pairs, pair, "%s layout %s round %d" % (direction, [(codec.NAMES.get(x[0]), x[2]) for x in layout], r))
        ctx.cover((direction, "sweep", mode, ti % len(FULL), fl, fo))
        return
    nmaps = 1 + ctx.choice(3, "nmaps")
    pairs = []
    # PDO COB-IDs stay clear of the node's SDO / NMT / EMCY ids
    base = 0x181 + ctx.choice(0x200, "cobbase")
    for n in range(nmaps):
        pdir = direction if ctx.choice(3, "mixdir") else ("tpdo", "rpdo")[ctx.choice(2, "pdir")]
        pair = Pair(w, pdir, n + 1)
        collide = n > 0 and ctx.choice(4, "collide") == 0 and pairs[0].direction == pdir
        cob = pairs[0].prod.cob_id if collide else base + n * 0x10
        layout = pairs[0].layout if collide else gen_layout(ctx)
        configure(ctx, w, pair, cob, layout, enabled=ctx.choice(6, "en") != 0, rtr=ctx.choice(3, "rtr") != 0, via_save=ctx.choice(3, "viasave") == 0)
        pairs.append(pair)
    nsteps = 1 + ctx.choice(25, "nsteps")
    for s in range(nsteps):
        with ctx.span("step"):
            pair = pairs[ctx.choice(len(pairs), "which")]
            cls = layout_class(pair.layout)
            if cls == "sub-byte":
                ctx.probe("sub-byte-field")
            elif cls == "unaligned-multibyte":
                ctx.probe("unaligned-multibyte")
            what = "%s%d" % (pair.direction, pair.number)
            op = ctx.weighted(((8, "tx"), (2, "periodic"), (2, "rtr"), (2, "reconf"), (1, "toggle"), (3, "wait"), (1, "oldcob"), (1, "reattach"), (1, "reentrant"), (2, "nmt")), "op")
            if op == "tx":
                assign(ctx, pair, what)
                transmit_and_check(ctx, w, pairs, pair, what + " transmit")
            elif op == "periodic":
                assign(ctx, pair, what)
                per = (0.001, 0.01, 0.1)[ctx.choice(3, "per")]
                _, exc = call(pair.prod.start, per)
                if exc is not None:
                    ctx.violation("C15/start-raised/%s@%s" % (type(exc).__name__, site(exc)), "%s start() raised %r" % (what, exc))
                ctx.run_for(int(per * SEC) * 2 + MS)
                pair.prod.stop()
                ctx.run_for(2 * MS)
                ctx.probe("periodic")
                # one more explicit transmission, checked in full
                transmit_and_check(ctx, w, pairs, pair, what + " transmit after periodic phase")
            elif op == "rtr":
                mark = w.ch.n
                if pair.direction != "tpdo":
                    continue
                _, exc = call(pair.cons.remote_request)
                ctx.run_for(1 * MS)
                rtrs = [f for f in w.ch.frames(since=mark) if f.rtr and f.src == "master"]
                should = pair.cons.enabled and pair.cons.rtr_allowed
                if exc is not None or (len(rtrs) == 1) != should or (rtrs and (rtrs[0].can_id != pair.cons.cob_id or len(rtrs) > 1)):
                    ctx.violation("C15/remote-request/%s" % ("missing" if should else "sent-although-not-allowed"),
                                  "%s: remote_request() with enabled=%s rtr_allowed=%s put %r on the bus (%r)" % (what, pair.cons.enabled, pair.cons.rtr_allowed, rtrs, exc))
                ctx.probe("rtr-sent" if should else "rtr-suppressed")
            elif op == "reconf":
                newcob = pair.prod.cob_id
                if ctx.choice(2, "newcob"):
                    newcob = base + 0x100 + ctx.choice(0x40, "cobn")
                    while any(p is not pair and p.prod.cob_id == newcob for p in pairs) or newcob in pair.old_cob_ids:
                        newcob += 1     # one producer per COB-ID (collisions are set up on purpose, same direction, same layout)
                configure(ctx, w, pair, newcob, gen_layout(ctx), enabled=True, rtr=ctx.choice(3, "rtr") != 0, via_save=ctx.choice(3, "viasave") == 0)
                ctx.probe("reconfigured")
            elif op == "nmt":
                # the NMT service of the same node is used next to the PDOs: a boot-up message or heartbeat of the device reaches
                # the master, or the master sends an NMT command.  PDO frames that are sent afterwards are received as before
                k = ctx.choice(4, "nmtkind")
                if k == 0:
                    w.ch.transmit(w.sbus, 0x700 + w.nid, bytes([(0x00, 0x7F, 0x04, 0x05)[ctx.choice(4, "hbstate")]]), origin="inject")
                elif k == 1:
                    call(w.remote.nmt.send_command, (0x80, 0x02, 0x01, 0x82)[ctx.choice(4, "ncs")])
                elif k == 2:
                    call(w.mnet.nmt.send_command, (0x80, 0x02, 0x01)[ctx.choice(3, "ncs")])
                else:
                    def setstate():
                        w.local.nmt.state = ("PRE-OPERATIONAL", "STOPPED", "OPERATIONAL")[ctx.choice(3, "lstate")]
                    call(setstate)
                ctx.run_for(2 * MS)
                ctx.probe("nmt-traffic-of-the-same-node")
                assign(ctx, pair, what)
                transmit_and_check(ctx, w, pairs, pair, what + " transmit after NMT traffic of the same node")
            elif op == "reentrant":
                # the consumer's callback calls back into the library: it makes the producer send the NEXT value at once, and with
                # delivery inside send() that frame is handled while the callback for the first one is still running
                if pair.cb_installed and pair in expected_consumers(w, pairs, pair.prod.cob_id, pair.cons_bus) and pair.must_consume == pair.prod.cob_id \
                        and len(expected_consumers(w, pairs, pair.prod.cob_id, pair.cons_bus)) == 1:
                    assign(ctx, pair, what)

                    old_inline = w.ch.inline_mode

                    def again(pair=pair, what=what):
                        # (the first frame reaches the consumer from the receive path, not from inside the producer's send call -
                        # the producer's network is free to send; the frame sent now is delivered inside this send call)
                        assign(ctx, pair, what + " (from inside the consumer's callback)")
                        w.ch.inline_mode = True
                        try:
                            pair.prod.transmit()
                        finally:
                            w.ch.inline_mode = old_inline
                    pair.reenter = again
                    w.ch.inline_mode = False
                    n0, mark = len(pair.cb_log), w.ch.n
                    _, exc = call(pair.prod.transmit)
                    ctx.run_for(2 * MS)
                    w.ch.inline_mode = old_inline
                    pair.reenter = None
                    if exc is not None:
                        ctx.violation("C15/transmit-raised/%s@%s" % (type(exc).__name__, site(exc)), "%s: transmit() with a callback that transmits again raised %r" % (what, exc))
                    frames = [f for f in w.ch.frames(since=mark) if f.src == pair.prod_bus and not f.rtr and f.can_id == pair.prod.cob_id]
                    if len(frames) == 2:
                        ctx.probe("frame-handled-inside-callback")
                        if bytes(pair.cons.data) != frames[-1].data or len(pair.cb_log) - n0 != 2:
                            ctx.violation("C15/consumer-not-updated/frame-inside-callback", "%s: two frames %r, the second sent from inside the callback for the first: consumer holds %s, callback ran %d times" % (
                                what, frames, bytes(pair.cons.data).hex(), len(pair.cb_log) - n0))
                        for i, (t, c, ln) in enumerate(pair.layout):
                            v = pair.values[i]
                            if v is not None:
                                got, exc = call(lambda i=i: pair.cons[i].raw)
                                if exc is None and not same(t, v, got):
                                    ctx.violation("C15/consumer-reads-other-value/frame-inside-callback", "%s: producer's last value %r, consumer reads %r" % (what, v, got))
            elif op == "reattach":
                # the node object of one side is taken off its network and added to it again (same object, same id);
                # whether its maps still listen afterwards is left open, but every configuration step from now on
                # (subscribe() / read() / save() of an enabled map) has to make them listen again
                side = ctx.choice(2, "side")
                net, node = ((w.mnet, w.remote), (w.snet, w.local))[side]

                def redo():
                    del net[w.nid]
                    net.add_node(node)
                _, exc = call(redo)
                if exc is not None:
                    ctx.violation("C15/reattach-raised/%s@%s" % (type(exc).__name__, site(exc)), "removing the %s node from its network and adding it again raised %r" % (("remote", "local")[side], exc))
                for p in pairs:
                    if p.cons_net is net:
                        p.must_consume = None
                ctx.probe("node-reattached")
                if ctx.choice(3, "reconf-after") != 0:
                    configure(ctx, w, pair, pair.prod.cob_id, pair.layout, enabled=True, rtr=pair.cons.rtr_allowed, via_save=ctx.choice(3, "viasave") == 0)
                    assign(ctx, pair, what)
                    transmit_and_check(ctx, w, pairs, pair, what + " transmit after the node was re-attached and the map configured again")
            elif op == "toggle":
                en = not pair.cons.enabled
                configure(ctx, w, pair, pair.prod.cob_id, pair.layout, enabled=en, rtr=pair.cons.rtr_allowed, via_save=False)
            elif op == "oldcob":
                # a frame on a COB-ID the map used before its reconfiguration
                if pair.old_cob_ids:
                    old = pair.old_cob_ids[ctx.choice(len(pair.old_cob_ids), "old")]
                    if all(p.prod.cob_id != old for p in pairs):
                        before = (bytes(pair.cons.data), pair.cons.timestamp, len(pair.cb_log))
                        src = w.sbus if pair.cons_bus == "master" else w.mbus
                        w.ch.transmit(src, old, bytes([0xEE] * max(1, len(pair.cons.data))), origin="inject")
                        ctx.run_for(2 * MS)
                        if (bytes(pair.cons.data), pair.cons.timestamp, len(pair.cb_log)) != before:
                            ctx.violation("C15/wrong-map-updated", "%s: a frame on its former COB-ID 0x%X changed the map (now 0x%X)" % (what, old, pair.cons.cob_id))
                        ctx.probe("frame-on-old-cob-id")
            else:
                _wait(ctx, w, pairs, pair, what)
            ctx.cover((pair.direction, op, cls, len(expected_consumers(w, pairs, pair.prod.cob_id, pair.cons_bus))))


def _wait(ctx, w, pairs, pair, what):
    timeout = (0.02, 0.2, 2.0)[ctx.choice(3, "timeout")]
    to_ns = int(timeout * SEC)
    pattern = ctx.choice(3, "pattern")      # 0 nothing, 1 frame inside the window, 2 only frames for other COB-IDs
    t0 = ctx.now
    assign(ctx, pair, what)
    sent = []
    if pattern:
        at = 1 * MS + ctx.choice(max(1, (to_ns - 8 * MS) // MS), "at") * MS
        if at > to_ns - 4 * MS:
            at = max(MS, to_ns - 4 * MS)
        if pattern == 1:
            def fire():
                pair.prod.transmit()
                sent.append(ctx.now)
            ctx.at(t0 + at, fire)
        else:
            src = w.sbus if pair.cons_bus == "master" else w.mbus
            other = pair.prod.cob_id + 1
            if any(p.prod.cob_id == other for p in pairs):
                other = 0x7F0
            ctx.at(t0 + at, lambda: w.ch.transmit(src, other, b"\x01\x02", origin="inject"))
    expects = pattern == 1 and pair in expected_consumers(w, pairs, pair.prod.cob_id, pair.cons_bus)
    res, exc = call(pair.cons.wait_for_reception, timeout)
    took = ctx.now - t0
    ctx.run_for(max(0, t0 + to_ns + 3 * MS - ctx.now))
    if exc is not None:
        ctx.violation("C15/wait-raised/%s@%s" % (type(exc).__name__, site(exc)), "%s wait_for_reception raised %r" % (what, exc))
    if expects:
        if res is None:
            ctx.violation("C15/waiter-not-woken", "%s: wait_for_reception(%s) returned None after %.4f s although a frame was delivered at %.4f s" % (what, timeout, took / SEC, (sent[0] - t0) / SEC if sent else -1))
        if res != pair.cons.timestamp and took < to_ns:
            ctx.violation("C15/waiter-timestamp", "%s: wait_for_reception returned %r, the frame's timestamp is %r" % (what, res, pair.cons.timestamp))
        ctx.probe("wait-returned")
    else:
        if res is not None:
            ctx.violation("C15/waiter-woken-without-frame", "%s: wait_for_reception(%s) returned %r although no frame for COB-ID 0x%X was delivered (pattern %d, enabled=%s)" % (
                what, timeout, res, pair.cons.cob_id, pattern, pair.cons.enabled))
        ctx.probe("wait-none")
