"""C07 - A disturbed SDO transfer fails loudly and does not poison the next one.

System: real SdoClient against RefSdoServer; the transport executes a fault
plan with exactly ONE disturbance placed at protocol step k of the disturbed
transfer.  Run = warm-up transfer (undisturbed, records frames that serve as
stale frames and tells how many responses the transfer has) -> disturbed
transfer -> drain -> undisturbed follow-up transfer.  In a quarter of the runs an
EARLIER transfer on the same client has already lost a response (prelude); the
exception of that failed call is kept alive and released - so that the garbage
collector finalizes the stream objects it holds - at the end of the run, right
away, or at a tape-chosen instant inside the follow-up transfer.  Against the
repository's own server one more disturbance exists: the request is duplicated
on the bus, so that the real peer produces the abort / stale answer itself.
"""
import canopen
from canopen.sdo.exceptions import SdoAbortedError, SdoCommunicationError, SdoError

from simcan import world
from simcan.bus import Transport
from simcan.core import MS, SEC, US
from simcan.util import call, site, need_bytes

ID = "C07"
LEVEL = "fault_enumeration"
BUDGET = {"quick": 45, "thorough": 480}
RULE = ("one run = warm-up transfer, ONE disturbed transfer, drain, undisturbed follow-up; case key = "
        "(transfer kind, length class, disturbance kind, protocol step (absolute 0..12 or relative to the "
        "end), outcome class); non-trivial = the disturbance actually fired (step < number of responses); "
        "distinct = distinct keys among those")
EXHAUSTIVE_CORE = ("{expedited, segmented declared, segmented undeclared, block} x {download, upload} x 11 "
                   "length classes on both sides of the framing boundaries (block kinds up to 1772 bytes = two full sub-blocks of 127 segments) x 17 step positions x 17 "
                   "disturbance kinds (drop, abort, toggle, wrong multiplexer, duplicate, late, stale before/"
                   "between/after, each other command specifier; duplicated request against the repository's own server)")
ASSUMPTIONS = [
    "RefSdoServer (incl. block transfer, CRC-16/XMODEM computed bitwise) is my reading of CiA 301",
    "a stale or duplicated frame that is protocol-indistinguishable (same command specifier, toggle/sequence "
    "number and multiplexer where carried) from the expected response is not judged for data equality (rule 3)",
    "MAX_RETRIES stays at its shipped value 1",
    "the moment at which CPython finalizes the stream objects of an earlier, failed transfer is not under the application's control: the simulator picks it "
    "(gc.collect() from a simulator event); what those finalizers put on the bus is the library's behaviour",
    "a CAN-level duplicate of a request (dup-req) is injected only against the repository's own server: from the client's side it is 'abort frame received' / "
    "'stale response', produced by the real peer",
]
COMPONENTS = {
    "real": ["canopen.sdo.client (all stream classes incl. block)", "canopen.Network", "canopen.RemoteNode",
             "io.BufferedWriter/BufferedReader"],
    "stub": ["CAN backend (SimBus) with fault-injecting transport", "can.Notifier", "time/queue in canopen.sdo.client",
             "SDO server (RefSdoServer)"],
}
PROBES = ["client-abort-0x05040000", "queue-flushed", "block-upload-retransmit", "indistinguishable", "followup-ok", "earlier-transfer-timed-out", "local-access-on-the-server-node-during-the-transfer"]

KINDS = ("exp-dl", "exp-ul", "seg-dl", "seg-dl-undeclared", "seg-ul", "blk-dl", "blk-ul",
         # the same against the repository's own SdoServer (LocalNode on a second Network)
         "r-exp-dl", "r-exp-ul", "r-seg-dl", "r-seg-dl-undeclared", "r-seg-ul")
LEN_EXP = (1, 2, 3, 4)
LEN_SEG = (0, 1, 4, 5, 7, 8, 14, 15, 21, 27, 29)
LEN_BLK = (1, 6, 7, 8, 13, 14, 15, 21, 22, 50, 896, 1772)
NLEN = 12
STEPS = tuple(range(13)) + ("last", "last-1", "last-2", "mid")
FAULTS = ("drop", "abort", "toggle", "mux", "dup", "late", "stale-before", "stale-between", "stale-after",
          "cs0", "cs1", "cs2", "cs3", "cs4", "cs5", "cs6", "cs7",
          # CAN-level duplicate of a *request* (retransmission after a lost acknowledge slot), only against the repository's
          # own server: the server answers the copy as well (toggle abort, second confirmation), so for the client this is
          # "abort frame received" / "stale response" produced by the real peer instead of by the transport
          "dup-req")
ABORT_CODES = (0x08000000, 0x05040000, 0x06020000, 0x06090011, 0x06010002, 0x05030000, 0x05040001, 0, 0xFFFFFFFF)


def nontrivial(cover):
    return sum(1 for k in cover if k[5])


def jobs(tier, seed):
    enum = []
    for k in range(len(KINDS)):
        for li in range(NLEN):
            for st in range(len(STEPS)):
                for f in range(len(FAULTS)):
                    enum.append((k, li, st, f))
    return enum, (300_000 if tier == "quick" else 5_000_000)


def _length(kind, li, ctx, real=False):
    n = _length0(kind, li, ctx)
    if real and n == 0:
        return 9        # (empty values against the real server are C02's subject)
    return n


def _length0(kind, li, ctx):
    if kind.startswith("exp"):
        return LEN_EXP[li % len(LEN_EXP)]
    if kind.startswith("blk"):
        return LEN_BLK[li % len(LEN_BLK)]
    return LEN_SEG[li % len(LEN_SEG)]


class Plan(Transport):
    """Transport with one disturbance on the server->master direction."""

    def __init__(self, ctx, lat_lo, lat_hi, w):
        Transport.__init__(self, ctx, lat_lo, lat_hi)
        self.w = w
        self.active = False
        self.fault = None
        self.step = None
        self.nresp = 0          # responses of the current transfer seen so far
        self.nreq = 0
        self.fired = False
        self.recorded = []      # responses of the current transfer (as sent by the server)
        self.stale = None
        self.injected = None    # the frame that was injected / replaced
        self.real_at = {}       # step -> real response bytes
        self.abort_code = None
        self.cs = None
        self.phase = None

    def begin(self, fault=None, step=None, stale=None):
        self.active = True
        self.fault = fault
        self.step = step
        self.nresp = 0
        self.nreq = 0
        self.nreq_routed = 0
        self.fired = False
        self.recorded = []
        self.stale = stale
        self.injected = None
        self.real_at = {}

    def end(self):
        self.active = False

    def on_request(self, fr):
        """channel monitor: a frame from the master hits the wire"""
        if not self.active or fr.src != "master" or fr.can_id != self.w.srv.rx_cobid:
            return
        k = self.nreq
        self.nreq += 1
        la = getattr(self.w, "local_access_at", None)
        if la is not None and k == la and self.w.real:
            # the application on the SERVER's side reads another object of its own node through the local API while the
            # remote transfer is under way (between two of its frames); that must not touch the transfer
            self.w.local_access_at = None
            try:
                self.w.local.sdo.upload(0x2000, 1)
            except Exception:       # noqa
                pass
            self.ctx.probe("local-access-on-the-server-node-during-the-transfer")

    def route(self, frame, dst):
        ctx = self.ctx
        lat = self.latency()
        if self.fault == "dup-req" and self.active and frame.src == "master" and dst.name == "server" and frame.can_id == self.w.srv.rx_cobid:
            k = self.nreq_routed
            self.nreq_routed += 1
            if k == self.step and not self.fired and self.w.real and frame.data[0] != 0x80:
                self.fired = True
                self.phase = _phase(self.w.kind, k, self.w.nresp)
                ctx.fault("dup-req")
                self.injected = frame.data
                gap = (0, US, 300 * US, 3 * MS, 30 * MS)[ctx.choice(5, "dupgap")]
                return [(lat, None), (lat + gap, None)]
            return [(lat, None)]
        if frame.src != "server" or dst.name != "master" or not self.active:
            return [(lat, None)]
        k = self.nresp
        self.nresp += 1
        self.recorded.append(frame.data)
        self.real_at[k] = frame.data
        f = self.fault
        if f is None or self.fired or f == "dup-req":
            return [(lat, None)]
        ch = self.w.ch
        if f == "stale-before":
            # stale frame lands right behind response step-1, i.e. it is in the
            # queue when the client issues request `step`
            if k == self.step - 1:
                self.fired = True
                self.phase = _phase(self.w.kind, self.step, self.w.nresp)
                ctx.fault("stale-before")
                self.injected = self.stale
                return [(lat, None), (lat + US, self.stale)]
            return [(lat, None)]
        if k != self.step:
            return [(lat, None)]
        data = frame.data
        ph = _phase(self.w.kind, k, self.w.nresp)
        self.phase = ph
        if (f == "toggle" and ph != "segment-response") or \
           (f == "mux" and ph != "initiate") or \
           (f.startswith("cs") and ph == "block-segment") or \
           (f in ("late", "stale-after") and ph == "block-segment"):
            # (late / stale-after model "left over from a transfer that timed
            # out"; a lost block-upload segment does not end the transfer, so
            # there they would be a second disturbance inside the same one)
            # the frame has no toggle bit / multiplexer / command specifier:
            # the disturbance the statement lists does not exist at this step
            self.step = -99
            return [(lat, None)]
        self.fired = True
        if f in ("drop", "stale-after"):
            ctx.fault("drop")
            if f == "stale-after":
                ctx.fault("stale-after")
                self.injected = self.stale
                late = int(self.w.timeout * SEC) + 20 * MS + lat
                return [(late, self.stale)]
            return []
        if f == "late":
            ctx.fault("late")
            self.injected = data
            return [(int(self.w.timeout * SEC) + 5 * MS + lat + MS * ctx.choice(50, "late-extra"), None)]
        if f == "dup":
            ctx.fault("dup")
            self.injected = data
            gap = (0, US, 300 * US, 3 * MS, 30 * MS)[ctx.choice(5, "dupgap")]
            return [(lat, None), (lat + gap, None)]
        if f == "abort":
            ctx.fault("abort")
            code = ABORT_CODES[ctx.choice(len(ABORT_CODES) + 1, "abortcode") % len(ABORT_CODES)] \
                if ctx.choice(4, "abortrnd") else ctx.choice(1 << 32, "abortcodev")
            self.abort_code = code
            mux = data[1:4] if ctx.choice(2, "abortmux") == 0 else bytes(3)
            self.injected = bytes([0x80]) + mux + code.to_bytes(4, "little")
            return [(lat, self.injected)]
        if f == "toggle":
            ctx.fault("toggle")
            self.injected = bytes([data[0] ^ 0x10]) + data[1:]
            return [(lat, self.injected)]
        if f == "mux":
            ctx.fault("mux")
            which = ctx.choice(3, "muxwhich")
            d = bytearray(data)
            if which == 0:
                d[1] ^= 1 << ctx.choice(8, "bit")
            elif which == 1:
                d[2] ^= 1 << ctx.choice(8, "bit")
            else:
                d[3] ^= 1 << ctx.choice(8, "bit")
            self.injected = bytes(d)
            return [(lat, self.injected)]
        if f == "stale-between":
            ctx.fault("stale-between")
            self.injected = self.stale
            # the stale frame overtakes the real response
            return [(lat, self.stale), (lat + (US, 200 * US, 5 * MS)[ctx.choice(3, "stalegap")], None)]
        if f.startswith("cs"):
            cs = int(f[2])
            if cs == data[0] >> 5:
                self.fired = False      # same specifier: not a disturbance
                self.step = -99
                return [(lat, None)]
            ctx.fault("wrong-cs")
            self.cs = cs
            self.injected = bytes([(data[0] & 0x1F) | cs << 5]) + data[1:]
            return [(lat, self.injected)]
        return [(lat, None)]


def _phase(kind, k, nresp):
    """Which kind of server->client frame is response k of an undisturbed
    transfer of this kind with nresp responses?"""
    if kind in ("exp-dl", "exp-ul"):
        return "initiate"
    if kind in ("seg-dl", "seg-dl-undeclared", "seg-ul"):
        return "initiate" if k == 0 else "segment-response"
    if k == 0:
        return "initiate"
    if k == nresp - 1:
        return "block-end"
    return "block-ack" if kind == "blk-dl" else "block-segment"


def _same_shape(kind, a, b):
    """Is frame `a` protocol-indistinguishable from the expected frame `b`?"""
    if a is None or b is None:
        return False
    if kind == "blk-ul" and not (b[0] >> 5 == 6 and (b[0] & 3) in (0, 1) and False):
        # sub-block segments carry only a sequence number
        pass
    if a[0] >> 5 != b[0] >> 5:
        # block upload segments have no command specifier: compare below
        if kind != "blk-ul":
            return False
    scs = b[0] >> 5
    if kind == "blk-ul":
        # segment frames: indistinguishable iff same sequence number and c bit
        return a[0] == b[0] or (a[0] & 0x7F) == (b[0] & 0x7F)
    if kind == "blk-dl":
        if scs == 5:
            if (a[0] & 3) != (b[0] & 3):
                return False
            if b[0] & 3 == 0:
                return a[1:4] == b[1:4]
            return True
        return False
    if scs in (2, 3):       # initiate upload / download response: carries multiplexer
        return a[1:4] == b[1:4]
    if scs in (0, 1):       # segment responses: toggle
        return (a[0] & 0x10) == (b[0] & 0x10)
    return False


class W(world.ClientWorld):
    pass


class _Store:
    def __init__(self, local):
        self.local = local

    def __setitem__(self, key, data):
        self.local.data_store.setdefault(key[0], {})[key[1]] = bytes(data)


class _NoStyle:
    up = "auto"
    blksize = None
    crc = False
    stall_timeout = 0


class RealServerWorld:
    """Real client on the master Network, real LocalNode/SdoServer on a second
    Network of the same simulated segment (endpoint name "server")."""

    def __init__(self, ctx):
        import canopen
        from canopen import objectdictionary as odm
        self.ctx = ctx
        self.ch = world.make_channel(ctx)
        self.net, self.bus = world.make_network(ctx, self.ch, "master")
        self.net2, self.bus2 = world.make_network(ctx, self.ch, "server")
        node_id = 1 + ctx.choice(127, "node")
        od = canopen.ObjectDictionary()
        for base in (0x2000, 0x3000, 0x4000):
            for i in range(16):
                od.add_object(world.record("R%04X" % (base + i), base + i,
                                           [world.var("n", base + i, 0, odm.UNSIGNED8)] +
                                           [world.var("m%d" % k, base + i, k, odm.DOMAIN) for k in (1, 2, 3, 4)]))
        self.node = canopen.RemoteNode(node_id, canopen.ObjectDictionary())
        self.net.add_node(self.node)
        self.local = canopen.LocalNode(node_id, od)
        self.net2.add_node(self.local)
        self.local.data_store.setdefault(0x2000, {})[1] = b"read by the application on the server's side"
        to = (0.3, 0.12, 1.0)[ctx.choice(3, "timeout")]
        worst = 2 * (self.ch.transport.lat_hi + self.ch.frame_time(8))
        if to * SEC < 4 * worst:
            to = 0.3
        self.node.sdo.RESPONSE_TIMEOUT = to
        self.timeout = to
        srv = self
        self.srv = self
        # the adapter surface c07 uses
        self.store = _Store(self.local)
        self.commits = []
        self.local.add_write_callback(lambda index, subindex, od, data: self.commits.append((index, subindex, bytes(data))))
        self.style = _NoStyle()
        self.illegal = []
        self.rx_cobid = 0x600 + node_id
        self.tx_cobid = 0x580 + node_id
        self.bu_stats = None
        self.bd_stats = None


def _do_transfer(ctx, w, kind, length, index, sub, salt):
    """Run one transfer through the real client API; returns (exc, returned, expected)."""
    node, srv = w.node, w.srv
    data = world.pattern(length, salt)
    srv.style.up = "auto"
    if kind == "exp-dl":
        _, exc = call(node.sdo.download, index, sub, data)
        return exc, None, data
    if kind == "seg-dl":
        _, exc = call(node.sdo.download, index, sub, data, True)
        return exc, None, data
    if kind == "seg-dl-undeclared":
        def do():
            with node.sdo.open(index, sub, "wb", buffering=7) as fp:
                fp.write(data)
        _, exc = call(do)
        return exc, None, data
    if kind == "blk-dl":
        crc = w.crc_req

        def do():
            with node.sdo.open(index, sub, "wb", size=length, block_transfer=True,
                               request_crc_support=crc) as fp:
                fp.write(data)
        _, exc = call(do)
        return exc, None, data
    srv.store[(index, sub)] = data
    if kind == "exp-ul":
        srv.style.up = "exp_size"
        res, exc = call(node.sdo.upload, index, sub)
        return exc, res, data
    if kind == "seg-ul":
        srv.style.up = w.seg_style
        res, exc = call(node.sdo.upload, index, sub)
        return exc, res, data
    if kind == "blk-ul":
        crc = w.crc_req

        def do():
            with node.sdo.open(index, sub, "rb", block_transfer=True, request_crc_support=crc) as fp:
                return fp.read()
        res, exc = call(do)
        return exc, res, data
    raise ValueError(kind)


def _judge_undisturbed(ctx, w, kind, exc, res, data, index, sub, ncommits, label, extra=""):
    srv = w.srv
    what = "%s %s %04X:%02X len=%d%s" % (label, kind, index, sub, len(data), extra)
    # (frame legality is C01/C12/C13's subject; here only: completes correctly)
    if exc is not None:
        ctx.violation("C07/%s/raised/%s@%s/%s" % (label, type(exc).__name__, site(exc), kind), "%s raised %r" % (what, exc))
    if kind.endswith("ul"):
        res = need_bytes(ctx, "C07", res, what)
        if bytes(res) != data:
            ctx.violation("C07/%s/wrong-data/%s" % (label, kind),
                          "%s returned %d bytes %s.., server holds %d bytes %s.." % (what, len(res), bytes(res)[:12].hex(), len(data), data[:12].hex()))
    else:
        new = srv.commits[ncommits:]
        if len(new) != 1 or new[0] != (index, sub, data):
            ctx.violation("C07/%s/wrong-data/%s" % (label, kind),
                          "%s: server commits %r" % (what, [(i, s, d[:12].hex(), len(d)) for i, s, d in new]))


def _release(ctx, w):
    """Drop the last reference to an earlier failed call's exception and let the garbage collector finalize what it held."""
    import gc
    if getattr(w, "keep", None) is None:
        return
    w.keep = None
    ctx.fault("finalizer-of-failed-transfer-runs-late")
    gc.collect()


def scenario(ctx):
    kind = KINDS[ctx.choice(len(KINDS), "kind")]
    li = ctx.choice(NLEN, "len")
    st = STEPS[ctx.choice(len(STEPS), "step")]
    fault = FAULTS[ctx.choice(len(FAULTS), "fault")]
    real = kind.startswith("r-")
    if real:
        kind = kind[2:]
        w = RealServerWorld(ctx)
    else:
        w = W(ctx)
    w.real = real
    w.kind = kind
    w.nresp = 0
    plan = Plan(ctx, w.ch.transport.lat_lo, w.ch.transport.lat_hi, w)
    w.ch.transport = plan
    w.ch.monitors.append(plan.on_request)
    srv, node = w.srv, w.node
    length = _length(kind, li, ctx, real)
    if ctx.params.get("tier") == "thorough" and ctx.choice(4, "rndlen") == 1 and not kind.startswith("exp"):
        length = 1 + ctx.choice(3000, "lenv")
    blk = (127, 1, 2, 3, 4, 7)[ctx.choice(6, "blksize")]
    srv.style.blksize = lambda: blk
    srv.style.crc = ctx.choice(2, "srvcrc") == 0
    w.crc_req = ctx.choice(2, "clicrc") == 0
    w.seg_style = ("seg_size", "seg_nosize")[ctx.choice(2, "segstyle")]
    # the stall timer of the server must stay above the client's time-out so
    # that the client's own time-out handling is what is observed
    srv.style.stall_timeout = int(w.timeout * SEC) + 400 * MS

    # ---- warm-up (undisturbed; different object, different bytes)
    with ctx.span("warmup"):
        index, sub = 0x3000 + ctx.choice(16, "i1"), 1 + ctx.choice(4, "s1")
        rel = ctx.choice(3, "warmmux")
        if rel == 0:        # another object altogether
            i0, s0 = 0x2000 + ctx.choice(16, "i0"), 1 + ctx.choice(4, "s0")
        elif rel == 1:      # same index, other sub-index
            i0, s0 = index, 1 + (sub - 1 + 1 + ctx.choice(3, "s0")) % 4
        else:               # other index, same sub-index
            i0, s0 = index ^ (1 << ctx.choice(4, "i0bit")), sub
        plan.begin()
        n0 = len(srv.commits)
        exc, res, data = _do_transfer(ctx, w, kind, length, i0, s0, 1 + ctx.choice(100, "salt0"))
        plan.end()
        _judge_undisturbed(ctx, w, kind, exc, res, data, i0, s0, n0, "warmup")
        warm = list(plan.recorded)
    nresp = len(warm)
    w.nresp = nresp
    if isinstance(st, int):
        step = st
    elif st == "last":
        step = nresp - 1
    elif st == "last-1":
        step = nresp - 2
    elif st == "last-2":
        step = nresp - 3
    else:
        step = nresp // 2
    ctx.drain()
    srv.illegal.clear()

    # ---- in a quarter of the runs an EARLIER transfer on the same client has already run into a lost response (and was
    # aborted by the client): the statement's sentences about the disturbed transfer hold whatever the client went through before
    if ctx.choice(4, "prelude") == 1:
        with ctx.span("prelude"):
            kp = KINDS[ctx.choice(5 if real else 7, "kindp")]
            lp = _length(kp, ctx.choice(NLEN, "lenp"), ctx, real)
            ip, sp = 0x2000 + ctx.choice(16, "ip"), 1 + ctx.choice(4, "sp")
            w.kind = kp
            plan.begin("drop", ctx.choice(3, "stepp"), None)
            # the failed call's exception (its traceback holds the stream objects of that transfer) stays alive, as it does
            # in an application that logs or stores it ...
            w.keep = _do_transfer(ctx, w, kp, lp, ip, sp, 51 + ctx.choice(40, "saltp"))
            plan.end()
            if plan.fired:
                ctx.probe("earlier-transfer-timed-out")
            plan.phase = None
            w.kind = kind
            ctx.drain()
            srv.illegal.clear()
            # ... and is garbage-collected either at the end of the run, or right away, or - the interpreter picks the moment -
            # while the undisturbed follow-up transfer is running: what the finalizers of the old stream objects do then
            # (close() of a stream whose transfer failed) is part of the library's behaviour
            w.finalize = ctx.choice(3, "finalize") if (plan.fired and w.keep[0] is not None) else 0
            if w.finalize == 1:
                _release(ctx, w)
                ctx.drain()

    # ---- disturbed transfer
    stale = None
    if fault.startswith("stale"):
        if ctx.choice(3, "stalepick") == 0 and 0 <= step < len(warm):
            stale = warm[step]
        else:
            stale = warm[ctx.choice(len(warm), "staleidx")]
    mark = w.ch.n
    w.local_access_at = (1 + ctx.choice(4, "local-access-at")) if (real and ctx.choice(4, "local-access") == 1) else None
    plan.begin(fault, step, stale)
    if fault == "stale-before" and step == 0:
        # before the very first request of the transfer
        plan.fired = True
        plan.phase = "initiate"
        plan.injected = stale
        ctx.fault("stale-before")
        w.ch.inject(w.bus, srv.tx_cobid, stale)
        ctx.drain()
    n1 = len(srv.commits)
    t_start = ctx.now
    exc, res, data = _do_transfer(ctx, w, kind, length, index, sub, 101 + ctx.choice(100, "salt1"))
    plan.end()
    fired = plan.fired
    what = "%s %04X:%02X len=%d fault=%s@%s(step %d of %d)" % (kind, index, sub, length, fault, st, step, nresp)

    outcome = "ok" if exc is None else type(exc).__name__
    phase = plan.phase or "-"
    indist = False
    if fired:
        if fault == "stale-between" or (fault == "stale-before" and phase == "block-segment"):
            # (inside a block-upload segment stream there are no requests: a
            # frame inserted "before" step k simply precedes segment k)
            indist = _same_shape(kind, plan.injected, plan.real_at.get(step))
        elif fault == "dup":
            nxt = plan.real_at.get(step + 1)
            if kind == "blk-ul" and phase == "block-segment" and step + 1 == nresp - 1:
                # duplicate of the last segment lands where the end frame is due
                indist = plan.injected[0] & 0xE3 == 0xC1
            else:
                indist = _same_shape(kind, plan.injected, nxt)
    if indist:
        ctx.probe("indistinguishable")
    ctx.cover((("r-" if real else "") + kind, li, fault, st if not isinstance(st, int) else min(st, 12), outcome, fired, indist))

    # frames still in flight (e.g. the server's commit after a response the
    # client did not wait for) settle before the outcome is judged
    ctx.drain()
    client_frames = [f for f in w.ch.frames(can_id=srv.rx_cobid, since=mark) if f.src == "master"]
    aborts = [f for f in client_frames if f.data[0] == 0x80]
    timeout_abort = any(f.data[4:8] == bytes([0, 0, 4, 5]) for f in aborts)
    if timeout_abort:
        ctx.probe("client-abort-0x05040000")
    crc_on = bool(w.crc_req and srv.style.crc)
    cause = "%s%s/%s%s" % ("real-server/" if real else "", kind, phase, "" if not kind.startswith("blk") else ("/crc" if crc_on else "/no-crc"))

    # (1) never success with different data; failure only by SDO errors
    if exc is None:
        if not indist:
            if kind.endswith("ul"):
                res = need_bytes(ctx, "C07", res, what)
                if bytes(res) != data:
                    ctx.violation("C07/success-with-wrong-data/%s" % cause,
                                  "%s returned %d bytes %s.. but the server holds %d bytes %s.." % (what, len(res), bytes(res)[:16].hex(), len(data), data[:16].hex()))
            else:
                new = srv.commits[n1:]
                if not new or any(c != (index, sub, data) for c in new):
                    ctx.violation("C07/success-with-wrong-data/%s" % cause,
                                  "%s returned normally but the server committed %r" % (what, [(i, s, len(d), d[:12].hex()) for i, s, d in new]))
    else:
        if not isinstance(exc, (SdoCommunicationError, SdoAbortedError)):
            ctx.violation("C07/wrong-exception/%s@%s/%s" % (type(exc).__name__, site(exc), cause),
                          "%s raised %r instead of an SDO communication/abort error" % (what, exc))
    # (2) a lost response makes the client emit the time-out abort before raising
    # (a late segment of a block upload is not a loss: the client asks for
    # retransmission and the late copy then collides with it)
    if fired and fault in ("drop", "stale-after", "late") and phase != "block-segment":
        if not timeout_abort and not isinstance(exc, SdoAbortedError):
            ctx.violation("C07/no-timeout-abort/%s@%s" % (cause, site(exc) if exc is not None else "-"),
                          "%s: response lost, outcome %r, but the client did not emit an abort frame 80 .. 00 00 04 05 (client frames: %s)" % (what, exc or "normal return", [f.data.hex() for f in client_frames[-4:]]))
    if srv.bu_stats and srv.bu_stats.get("retx"):
        ctx.probe("block-upload-retransmit")
    if srv.bd_stats and srv.bd_stats.get("retx"):
        ctx.probe("block-download-retransmit")

    # ---- drain, then undisturbed follow-up on the same client and server
    ctx.drain()
    ctx.log("disturbed-done", kind, fault, step, outcome, fired)
    srv.illegal.clear()
    with ctx.span("followup"):
        k2 = KINDS[ctx.choice(5 if real else 7, "kind2")] if ctx.choice(2, "samekind") else kind
        l2 = _length(k2, ctx.choice(NLEN, "len2"), ctx, real)
        i2, s2 = (index, sub) if ctx.choice(2, "sameobj") == 0 else (0x4000 + ctx.choice(16, "i2"), 1 + ctx.choice(4, "s2"))
        plan.begin()
        n2 = len(srv.commits)
        q_before = node.sdo.responses
        stale_waiting = len(q_before.items) > 0
        if getattr(w, "finalize", 0) == 2:
            ctx.after((1 * US, 200 * US, 1 * MS, 5 * MS, 20 * MS)[ctx.choice(5, "finalize-at")], lambda: _release(ctx, w))
        exc2, res2, data2 = _do_transfer(ctx, w, k2, l2, i2, s2, 201 + ctx.choice(50, "salt2"))
        if stale_waiting and node.sdo.responses is not q_before:
            ctx.probe("queue-flushed")      # a stale frame was waiting and the client discarded it before its request
        plan.end()
        _judge_undisturbed(ctx, w, k2, exc2, res2, data2, i2, s2, n2, "followup",
                           " after %s with %s@%s (outcome %s)" % (kind, fault if fired else "no fault", st, outcome))
    ctx.probe("followup-ok")
