"""C16 - The EMCY consumer's log and active list mirror the received history.

System: real EmcyConsumer (in a RemoteNode), real EmcyProducer (in a LocalNode
on a second Network), a raw endpoint for arbitrary EMCY frames; waits under
virtual time.  Reference: log / active / callback / next-matching-entry model.
"""
import canopen
from canopen.emcy import EmcyError

from simcan import world
from simcan.bus import PeerEndpoint
from simcan.core import MS, SEC, US
from simcan.util import call, site

ID = "C16"
LEVEL = "exploration"
BUDGET = {"quick": 30, "thorough": 420}
RULE = ("one run = a history of up to 200 EMCY frames (raw or through the producer API), callback registrations, reset() calls and "
        "waits with a planned arrival pattern, compared with the reference after every delivery; case key = (step kind, code class, "
        "reset/error, active-list size class, wait pattern/outcome); every key is an executed step")
EXHAUSTIVE_CORE = "all 65 536 error codes through get_desc() against the CiA 301 class table; every class-boundary code (xx00, xxFF, 00xx) once as raw frame"
ASSUMPTIONS = [
    "an error-reset frame is one whose code has a zero high byte (0x00xx, CiA 301 'error reset or no error')",
    "wait(): the entry handed over is the first matching one delivered inside [call, call+timeout); arrivals within one latency of the deadline count as 'either'; "
    "None is due at the latest one time-out after the last wake-up",
    "no schedules with two deliveries before the waiter runs (Mode I; the quantifier has no schedules)",
]
COMPONENTS = {
    "real": ["canopen.emcy (EmcyConsumer, EmcyProducer, EmcyError, EMCY_STRUCT)", "RemoteNode/LocalNode wiring", "canopen.Network"],
    "stub": ["CAN backend (SimBus)", "can.Notifier", "threading.Condition and time inside canopen.emcy (virtual clock)"],
}
PROBES = ["reset-frame", "reset-frame-xxFF", "producer-roundtrip", "callback", "consumer-reset", "wait-returned", "wait-none", "wait-filtered", "wait-filter-zero", "waiters-served", "other-traffic", "callback-raises-once"]

CLASSES = ((0x0000, 0xFF00, "Error Reset / No Error"), (0x1000, 0xFF00, "Generic Error"), (0x2000, 0xF000, "Current"),
           (0x3000, 0xF000, "Voltage"), (0x4000, 0xF000, "Temperature"), (0x5000, 0xFF00, "Device Hardware"),
           (0x6000, 0xF000, "Device Software"), (0x7000, 0xFF00, "Additional Modules"), (0x8000, 0xF000, "Monitoring"),
           (0x9000, 0xFF00, "External Error"), (0xF000, 0xFF00, "Additional Functions"), (0xFF00, 0xFF00, "Device Specific"))
BOUNDARY = [0x0000, 0x0001, 0x00FF, 0x0100, 0x00FE, 0x0080, 0x1000, 0x10FF, 0x1100, 0x2000, 0x2FFF, 0x3000, 0x5000, 0x50FF, 0x5100, 0x7000,
            0x8110, 0x8120, 0x8130, 0x8FFF, 0x9000, 0xF000, 0xF0FF, 0xFF00, 0xFFFF, 0xFEFF, 0x6100, 0x4200]


def ref_desc(code):
    for c, m, d in CLASSES:
        if code & m == c:
            return d
    return ""


def jobs(tier, seed):
    return [(1, k) for k in range(16)] + [(2, 0)], (120_000 if tier == "quick" else 2_500_000)


def _code(ctx):
    k = ctx.choice(4, "codesrc")
    if k == 0:
        return BOUNDARY[ctx.choice(len(BOUNDARY), "bc")]
    if k == 1:
        return ctx.choice(0x100, "lowcode")          # reset codes 0x00xx
    if k == 2:
        return (ctx.choice(16, "hi") << 12) | (0, 0xFF, 0x100, 0xFFF)[ctx.choice(4, "lo")]
    return ctx.choice(0x10000, "code")


class W:
    def __init__(self, ctx):
        self.ctx = ctx
        self.ch = world.make_channel(ctx, swarm=False)
        self.mnet, self.mbus = world.make_network(ctx, self.ch, "master")
        self.snet, self.sbus = world.make_network(ctx, self.ch, "slave")
        self.nid = 1 + ctx.choice(127, "node")
        self.r = canopen.RemoteNode(self.nid, canopen.ObjectDictionary())
        self.mnet.add_node(self.r)
        self.l = canopen.LocalNode(self.nid, canopen.ObjectDictionary())
        self.snet.add_node(self.l)
        self.raw = PeerEndpoint(self.ch, "raw")
        self.log = []       # model entries (code, register, data5, ts)
        self.active = []
        self.cbs = []       # [list of received entries] per registered callback
        self.last_ts = None
        self.raiser = False
        self.raised_at = None       # index (in log_all) of the frame during whose dispatch a callback raised
        self.ch.monitors.append(self._mon)

    def _mon(self, fr):
        pass


def _entry_tuple(e):
    return (e.code, e.register, bytes(e.data), e.timestamp)


def _compare(ctx, w, what):
    cons = w.r.emcy
    got_log = [_entry_tuple(e) for e in cons.log]
    if got_log != w.log:
        n = min(len(got_log), len(w.log))
        i = next((k for k in range(n) if got_log[k] != w.log[k]), n)
        ctx.violation("C16/log/%s" % ("length" if len(got_log) != len(w.log) else "fields"),
                      "%s: log has %d entries, history %d; first difference at %d: %r vs %r" % (
                          what, len(got_log), len(w.log), i, got_log[i:i + 1], w.log[i:i + 1]))
    got_act = [_entry_tuple(e) for e in cons.active]
    if got_act != w.active:
        ctx.violation("C16/active-list", "%s: active = %r, entries since the last reset frame = %r" % (
            what, [hex(a[0]) for a in got_act], [hex(a[0]) for a in w.active]))
    for k, seen in enumerate(w.cbs):
        exp = w.log[len(w.log) - len(seen[1]):] if False else None
    for k, (start, seen) in enumerate(w.cbs):
        exp = w.log_all[start:]
        got_cb = [_entry_tuple(e) for e in seen]
        ra = getattr(w, "raised_at", None)
        if ra is not None and ra >= start and got_cb != exp:
            # the frame during whose dispatch a callback raised: whether the callbacks behind the failing one still saw
            # that frame is left open ("either"); all other frames are judged
            exp2 = [x for i, x in enumerate(w.log_all) if i >= start and i != ra]
            if got_cb == exp2:
                continue
        if got_cb != exp:
            ctx.violation("C16/callback-invocations", "%s: callback %d saw %d entries %r, frames since its registration: %d" % (
                what, k, len(seen), [hex(e.code) for e in seen][-5:], len(exp)))


def _apply(w, code, register, data5, ts):
    ent = (code, register, data5, ts)
    w.log.append(ent)
    w.log_all.append(ent)
    if code & 0xFF00 == 0:
        w.active = []
    else:
        w.active.append(ent)


def _frame(ctx, w, via):
    code = _code(ctx)
    register = ctx.choice(256, "reg") if ctx.choice(2, "regz") else 0
    n = ctx.choice(6, "dlen")
    data = bytes(ctx.choice(256, "d") for _ in range(n))
    data5 = data + bytes(5 - n)
    t_before = w.ch.n
    if via == "producer":
        if code & 0xFF00 == 0 and code == 0 and ctx.choice(2, "useReset") == 0:
            _, exc = call(w.l.emcy.reset, register, data)
        else:
            _, exc = call(w.l.emcy.send, code, register, data)
        if exc is not None:
            ctx.violation("C16/producer-raised/%s@%s" % (type(exc).__name__, site(exc)), "emcy.send(0x%04X, %d, %s) raised %r" % (code, register, data.hex(), exc))
        fr = [f for f in w.ch.frames(since=t_before) if f.src == "slave"]
        exp = bytes([code & 0xFF, code >> 8, register]) + data5
        if len(fr) != 1 or fr[0].can_id != 0x80 + w.nid or fr[0].data != exp:
            ctx.violation("C16/producer-frame", "emcy.send(0x%04X, %d, %s) put %r on the bus, expected %03X#%s" % (code, register, data.hex(), fr, 0x80 + w.nid, exp.hex()))
        ctx.probe("producer-roundtrip")
    else:
        w.raw.send(0x80 + w.nid, bytes([code & 0xFF, code >> 8, register]) + data5)
    dup = via == "raw" and ctx.choice(8, "dup") == 0
    if dup:
        w.raw.send(0x80 + w.nid, bytes([code & 0xFF, code >> 8, register]) + data5)
    nlog = len(w.r.emcy.log)
    ctx.run_for(2 * MS)
    new = w.r.emcy.log[nlog:]
    for e in new:
        _apply(w, code, register, data5, e.timestamp)
    if len(new) != (2 if dup else 1):
        ctx.violation("C16/log/length", "frame code 0x%04X (%s): log grew by %d entries, %d frames were delivered" % (code, via, len(new), 2 if dup else 1))
    what = "after %s frame code 0x%04X reg %d data %s" % (via, code, register, data5.hex())
    _compare(ctx, w, what)
    if code & 0xFF00 == 0:
        ctx.probe("reset-frame")
        if code & 0xFF == 0xFF:
            ctx.probe("reset-frame-xxFF")
    e = w.r.emcy.log[-1]
    if e.get_desc() != ref_desc(code):
        ctx.violation("C16/description", "code 0x%04X is described as %r, CiA 301 class: %r" % (code, e.get_desc(), ref_desc(code)))
    ctx.cover(("frame", via, code >> 12, code & 0xFF00 == 0, min(len(w.active), 3), dup))


def _other_traffic(ctx, w):
    """A frame of the same device (or of a neighbour) that is not an emergency frame of the consumer's node: the
    node's boot-up message or heartbeat, an NMT command, one of its SDO responses or PDOs, SYNC, the EMCY frame of
    another node.  Log, active list and callbacks follow the emergency frames only: nothing may change."""
    k = ctx.choice(7, "otherkind")
    other = 1 + (w.nid + ctx.choice(126, "othernode")) % 127
    if other == w.nid:
        other = 1 + w.nid % 127
    cid, data = (
        (0x700 + w.nid, b"\x00"),                                            # boot-up message (the device restarted)
        (0x700 + w.nid, bytes([(4, 5, 127, 0x85)[ctx.choice(4, "hbstate")]])),  # heartbeat
        (0x000, bytes([(1, 2, 128, 129, 130)[ctx.choice(5, "cs")], (w.nid, 0)[ctx.choice(2, "bc")]])),
        (0x580 + w.nid, bytes([0x60, 0x17, 0x10, 0, 0, 0, 0, 0])),
        (0x180 + w.nid, bytes([1, 2, 3, 4, 5, 6, 7, 8])),
        (0x080, b""),                                                         # SYNC
        (0x080 + other, bytes([0x10, 0x81, 1, 1, 2, 3, 4, 5])),               # emergency of another node
    )[k]
    ctx.op("other traffic %03X#%s" % (cid, data.hex()))
    w.raw.send(cid, data)
    ctx.run_for(2 * MS)
    ctx.probe("other-traffic")
    _compare(ctx, w, "after the unrelated frame %03X#%s" % (cid, data.hex()))
    ctx.cover(("other", k, min(len(w.active), 3)))


def _wait(ctx, w):
    cons = w.r.emcy
    filt = None
    k = ctx.choice(4, "filter")
    if k == 1:
        filt = BOUNDARY[ctx.choice(len(BOUNDARY), "fc")]
    elif k == 2:
        filt = 0
        ctx.probe("wait-filter-zero")
    elif k == 3:
        filt = _code(ctx)
    timeout = (0.05, 0.3, 2.0, 10.0)[ctx.choice(4, "timeout")]
    to_ns = int(timeout * SEC)
    pattern = ctx.choice(4, "pattern")       # 0 none, 1 matching inside, 2 only others inside, 3 matching late
    t0 = ctx.now
    plan = []
    n = 0 if pattern == 0 else 1 + ctx.choice(3, "nmsg")
    other = [c for c in (0x8110, 0x1000, 0x0000, 0x00FF, 0x5000) if c != filt]
    for i in range(n):
        at = 1 * MS + ctx.choice(max(1, (to_ns - 12 * MS) // MS), "at") * MS
        if at > to_ns - 6 * MS:
            at = max(1 * MS, to_ns - 6 * MS)
        code = other[ctx.choice(len(other), "oc")]
        if pattern in (1, 3) and i == n - 1:
            code = filt if filt is not None else code
            if pattern == 3:
                at = to_ns + 20 * MS + ctx.choice(300, "late") * MS
        if filt is None and pattern == 2:
            # without a filter every frame of this node matches: use another node's id
            plan.append((at, code, w.nid % 127 + 1))
        else:
            plan.append((at, code, w.nid))
    plan.sort(key=lambda x: x[0])
    for at, code, nid in plan:
        ctx.at(t0 + at, (lambda c=code, n_=nid: w.raw.send(0x80 + n_, bytes([c & 0xFF, c >> 8, 1, 0, 0, 0, 0, 0]))))
    nlog = len(cons.log)
    ctx.op("wait", filt, timeout, [(a // 1000, c, n_ == w.nid) for a, c, n_ in plan])
    res, exc = call(cons.wait, filt, timeout)
    took = ctx.now - t0
    lat = 2 * MS
    what = "wait(emcy_code=%s, timeout=%s) with arrivals %s" % (None if filt is None else hex(filt), timeout,
                                                               [("%.3f" % (a / SEC), hex(c), "own" if n_ == w.nid else "other") for a, c, n_ in plan])
    if exc is not None:
        ctx.violation("C16/wait-raised/%s@%s" % (type(exc).__name__, site(exc)), "%s raised %r" % (what, exc))
    own = [(at, c) for at, c, n_ in plan if n_ == w.nid]
    match = [(at, c) for at, c in own if filt is None or c == filt]
    inside = [m for m in match if m[0] + lat < to_ns]
    edge = [m for m in match if to_ns - lat <= m[0] <= to_ns + lat]
    # let all planned arrivals happen, then bring the model up to date
    last_at = max([at for at, c, n_ in plan] + [0])
    ctx.run_for(max(t0 + last_at + 5 * MS - ctx.now, 0) + 3 * MS)
    new = cons.log[nlog:]
    if len(new) != len(own):
        ctx.violation("C16/log/length", "%s: %d frames for this node were delivered, log grew by %d" % (what, len(own), len(new)))
    for e, (at, c) in zip(new, own):
        _apply(w, c, 1, bytes(5), e.timestamp)
    if inside:
        first = inside[0]
        idx = own.index(first)
        if res is None:
            ctx.violation("C16/wait-missed-matching-entry/%s" % ("filter-0" if filt == 0 else ("filtered" if filt is not None else "unfiltered")),
                          "%s returned None after %.3f s although a matching entry arrived at %.3f s" % (what, took / SEC, first[0] / SEC))
        if res is not new[idx]:
            ctx.violation("C16/wait-wrong-entry/%s" % ("filter-0" if filt == 0 else ("filtered" if filt is not None else "unfiltered")),
                          "%s returned the entry with code 0x%04X (arrival #%d), the first matching entry is arrival #%d (0x%04X)" % (
                              what, res.code, new.index(res) if res in new else -1, idx, first[1]))
        ctx.probe("wait-returned")
        if filt is not None:
            ctx.probe("wait-filtered")
    elif not edge:
        if res is not None:
            ctx.violation("C16/wait-returned-non-matching/%s" % ("filter-0" if filt == 0 else ("filtered" if filt is not None else "unfiltered")),
                          "%s returned the entry with code 0x%04X after %.3f s; no matching entry arrived inside the window" % (what, res.code, took / SEC))
        wake = max([at for at, c in own if at < to_ns] + [0])
        if took > wake + to_ns + 4 * lat:
            ctx.violation("C16/wait-timeout-late", "%s returned None only after %.3f s" % (what, took / SEC))
        ctx.probe("wait-none")
    _compare(ctx, w, what)
    ctx.cover(("wait", "none" if filt is None else ("zero" if filt == 0 else "code"), pattern, res is not None))


def _mode_t_observation(ctx):
    """Mode T, observation only (rule 7): a waiter task and the receive task under
    the seeded scheduler.  When two frames are delivered before the waiter runs
    again, wait() looks at log[-1] only and can miss a matching entry.  The
    property does not quantify over schedules, so this is counted, not judged;
    what IS judged is that log/active still mirror the history."""
    ctx.enable_threads((0, 4)[ctx.choice(2, "policy")])
    if ctx.choice(2, "stalls"):
        ctx.stall = lambda: (0, 0, 300 * US, 3 * MS)[ctx.choice(4, "stall")]
        ctx.fault("slow-task")
    w = W(ctx)
    w.log_all = []
    cons = w.r.emcy
    filt = (None, 0x8110, 0x0000)[ctx.choice(3, "filter")]
    codes = [(0x8110, 0x1000, 0x0000, 0x5000)[ctx.choice(4, "code")] for _ in range(1 + ctx.choice(4, "nframes"))]
    gaps = [(0, 0, 0.0002, 0.002)[ctx.choice(4, "gap")] for _ in codes]
    result = []

    def producer():
        for c, g in zip(codes, gaps):
            if g:
                ctx.sleep(g)
            w.raw.send(0x80 + w.nid, bytes([c & 0xFF, c >> 8, 1, 0, 0, 0, 0, 0]))

    def waiter():
        result.append(cons.wait(filt, 0.05))
    ctx.spawn("producer", producer)
    ctx.spawn("waiter", waiter)
    ctx.run_tasks()
    for t in ctx.tasks:
        if t.exc is not None:
            raise t.exc
    # drain what is still on the wire (main thread, no task is running any more)
    got = [(e.code, e.register) for e in cons.log]
    if got != [(c, 1) for c in codes[:len(got)]]:
        ctx.violation("C16/log/fields", "Mode T: log %r, frames sent %r" % (got, codes))
    matching = [c for c in codes[:len(got)] if filt is None or c == filt]
    r = result[0]
    if matching and r is None:
        ctx.observe("mode-T: wait() returned None although a matching entry was delivered during the wait (two deliveries before the waiter ran; not judged)")
    elif matching and r.code != matching[0]:
        ctx.observe("mode-T: wait() handed over a later matching entry than the first one (not judged)")
    else:
        ctx.observe("mode-T: wait() outcome as in the sequential model")
    ctx.cover(("mode-T-observation", filt is None, len(codes), r is not None))


def _mode_t_waiters(ctx):
    """Mode T, judged: 1..3 caller threads are inside wait() when ONE matching frame
    arrives (nothing else arrives during the waits).  Every one of them is 'a waiting
    caller' and must be handed that entry; with a single delivery the outcome does not
    depend on the schedule, so the unchanged library must satisfy it under every one."""
    ctx.enable_threads((0, 4)[ctx.choice(2, "policy")])
    if ctx.choice(2, "stalls"):
        ctx.stall = lambda: (0, 0, 300 * US, 3 * MS)[ctx.choice(4, "stall")]
        ctx.fault("slow-task")
    w = W(ctx)
    cons = w.r.emcy
    code = (0x8110, 0x1000, 0x0000, 0x5000, 0xFF01)[ctx.choice(5, "code")]
    nwait = 1 + ctx.choice(3, "nwait")
    filts = [(None, code)[ctx.choice(2, "filter")] for _ in range(nwait)]
    results = [None] * nwait

    t_begin = ctx.now

    def producer():
        ctx.sleep(0.005)        # all waiters are blocked in wait() by then (virtual time only advances when nobody can run)
        w.raw.send(0x80 + w.nid, bytes([code & 0xFF, code >> 8, 1, 9, 8, 7, 6, 5]))

    def waiter(i):
        def body():
            results[i] = call(cons.wait, filts[i], 0.2) + (ctx.now,)
        return body
    ctx.spawn("producer", producer)
    for i in range(nwait):
        ctx.spawn("waiter%d" % i, waiter(i))
    ctx.run_tasks()
    for t in ctx.tasks:
        if t.exc is not None:
            raise t.exc
    for i, (res, exc, t_done) in enumerate(results):
        what = "Mode T: %d callers in wait(), caller %d with filter %s, one frame with code 0x%04X after 5 ms" % (nwait, i, "none" if filts[i] is None else "0x%04X" % filts[i], code)
        if exc is not None:
            ctx.violation("C16/wait-raised/%s@%s" % (type(exc).__name__, site(exc)), "%s: wait() raised %r" % (what, exc))
        if res is None:
            ctx.violation("C16/waiting-caller-not-served/%s" % ("one-waiter" if nwait == 1 else "several-waiters"), "%s: wait() returned None after its time-out" % what)
        if res.code != code or res.register != 1 or bytes(res.data) != bytes([9, 8, 7, 6, 5]):
            ctx.violation("C16/wait-wrong-entry/mode-T", "%s: got %r" % (what, _entry_tuple(res)))
        # handed over when the frame arrives (5 ms after the start), not when the caller's own time-out ends 200 ms later
        if t_done - t_begin > 100 * MS:
            ctx.violation("C16/waiting-caller-served-late/%s" % ("one-waiter" if nwait == 1 else "several-waiters"), "%s: wait() came back after %.1f ms" % (what, (t_done - t_begin) / MS))
    ctx.probe("waiters-served", nwait)
    ctx.cover(("mode-T-waiters", nwait, tuple(f is None for f in filts)))


def _clock_step_observation(ctx):
    """Observation only (rule 7): the wall clock is stepped while a caller sits in wait().
    EmcyConsumer.wait() takes its deadline from time.time(); Condition.wait() counts on the
    monotonic clock.  No statement speaks about clock steps, so nothing here is judged except
    that the log still mirrors the history."""
    w = W(ctx)
    cons = w.r.emcy
    step = (10 * SEC, -10 * SEC, 3600 * SEC, -3600 * SEC)[ctx.choice(4, "step")]
    t_step = (100 + ctx.choice(400, "tstep")) * MS
    t_frame = t_step + (50 + ctx.choice(400, "tframe")) * MS      # always before the 1 s time-out

    def do_step():
        ctx.wall_offset += step
        ctx.fault("wall-clock-step")
    ctx.after(t_step, do_step)
    ctx.after(t_frame, lambda: w.raw.send(0x80 + w.nid, bytes([0x10, 0x81, 1, 0, 0, 0, 0, 0])))
    t0 = ctx.now
    res, exc = call(cons.wait, None, 1.0)
    took = (ctx.now - t0) / SEC
    ctx.run_for(50 * MS)
    if exc is not None:
        ctx.violation("C16/wait-raised/%s@%s" % (type(exc).__name__, site(exc)), "wait() with a wall-clock step of %+d s raised %r" % (step // SEC, exc))
    if [(e.code, e.register) for e in cons.log] != [(0x8110, 1)]:
        ctx.violation("C16/log/fields", "after a wall-clock step the log is %r" % ([(e.code, e.register) for e in cons.log],))
    if res is None:
        ctx.observe("wall clock stepped %s during wait(): an entry that arrived well inside the 1 s time-out was not handed over (not judged)" % (
            "forward" if step > 0 else "back"))
    else:
        ctx.observe("wall clock stepped %s during wait(): entry handed over as without the step" % ("forward" if step > 0 else "back"))
    ctx.cover(("clock-step", step > 0, res is not None))


def scenario(ctx):
    mode = ctx.choice(4, "mode")
    blk = ctx.choice(16, "blk")
    if mode == 3:
        k = ctx.choice(5, "tkind")
        if k in (1, 2):
            return _mode_t_waiters(ctx)
        if k == 3:
            return _clock_step_observation(ctx)
        return _mode_t_observation(ctx)
    if mode == 1:
        # description table: 4096 codes per run
        for code in range(blk * 4096, blk * 4096 + 4096):
            e = EmcyError(code, 0, b"", 0.0)
            if e.get_desc() != ref_desc(code):
                ctx.violation("C16/description", "code 0x%04X is described as %r, CiA 301 class: %r" % (code, e.get_desc(), ref_desc(code)))
        ctx.cover(("desc", blk))
        return
    w = W(ctx)
    w.log_all = []
    if mode == 2:
        for code in BOUNDARY:
            w.raw.send(0x80 + w.nid, bytes([code & 0xFF, code >> 8, 0x81, 1, 2, 3, 4, 5]))
            n0 = len(w.r.emcy.log)
            ctx.run_for(2 * MS)
            for e in w.r.emcy.log[n0:]:
                _apply(w, code, 0x81, bytes([1, 2, 3, 4, 5]), e.timestamp)
            _compare(ctx, w, "after boundary code 0x%04X" % code)
            ctx.cover(("boundary", code))
        return
    n = 1 + ctx.choice(200 if ctx.choice(5, "long") == 0 else 25, "nsteps")
    for i in range(n):
        with ctx.span("step"):
            op = ctx.weighted(((10, "raw"), (4, "producer"), (2, "callback"), (1, "reset"), (3, "wait"), (3, "other")), "op")
            if op in ("raw", "producer"):
                _frame(ctx, w, op)
            elif op == "other":
                _other_traffic(ctx, w)
            elif op == "callback":
                if len(w.cbs) < 4:
                    seen = []
                    if ctx.choice(3, "raising") == 0 and not w.raiser:
                        # an application callback with a bug of its own: it raises ONCE, on the first frame it sees (the receive
                        # path logs that).  For that one frame the callbacks after it are not judged; every later frame is
                        def cb(entry, seen=seen):
                            seen.append(entry)
                            if len(seen) == 1:
                                w.raised_at = len(w.log_all)
                                raise ValueError("application callback failed (injected)")
                        w.r.emcy.add_callback(cb)
                        w.raiser = True
                        ctx.probe("callback-raises-once")
                    else:
                        w.r.emcy.add_callback(seen.append)
                    w.cbs.append((len(w.log_all), seen))
                    ctx.probe("callback")
            elif op == "reset":
                ctx.op("consumer.reset()")
                w.r.emcy.reset()
                w.log = []
                w.active = []
                ctx.probe("consumer-reset")
                _compare(ctx, w, "after reset()")
                ctx.cover(("reset",))
            else:
                _wait(ctx, w)
