"""Shared by C02 and C06: random object dictionaries, the value-source model,
and the world 'real LocalNode/SdoServer <-> RefSdoClient'."""
import canopen
from canopen import objectdictionary as odm

from simcan import world
from simcan.bus import PeerEndpoint
from simcan.models import codec
from simcan.models.sdo_client import RefSdoClient

ACCESS = ("rw", "ro", "wo", "const")
TYPES = codec.ALL_TYPES
INDEX_POOLS = ((0x1000, 0x13FF), (0x1C00, 0x1FFF), (0x2000, 0x5FFF), (0x6000, 0x9FFF), (0xA000, 0xFFFF))


class Entry:
    """One variable of the generated dictionary and its value sources."""
    __slots__ = ("index", "sub", "dtype", "access", "default", "value", "cb", "stored", "odvar", "kind", "name")

    def readable(self):
        return self.access in ("rw", "ro", "const")

    def writable(self):
        return self.access in ("rw", "wo")

    def current(self):
        """bytes a conformant upload must return, or None if no source has a value"""
        for src in (self.cb, self.stored, self.value, self.default):
            if src is not None:
                return src[1]
        return None

    def source(self):
        for name, src in (("callback", self.cb), ("stored", self.stored), ("parameter", self.value), ("default", self.default)):
            if src is not None:
                return name
        return "none"


def gen_value(ctx, dtype, maxlen=64):
    """(python value, CiA 301 bytes by the independent codec)"""
    if dtype == codec.BOOLEAN:
        v = bool(ctx.choice(2, "bool"))
    elif dtype in codec.INTS:
        bv = codec.boundary_values(dtype)
        k = ctx.choice(len(bv) + 4, "intv")
        if k < len(bv):
            v = bv[(k * 7) % len(bv)] if k else 0
        else:
            lo, hi = codec.int_range(dtype)
            v = lo + ctx.choice(hi - lo + 1, "intrnd")
    elif dtype == codec.REAL32:
        v = (0.0, 1.0, -2.5, 1.5e10, -0.0, 3.0e-39, float("inf"))[ctx.choice(7, "r32")]
    elif dtype == codec.REAL64:
        v = (0.0, 1.0, -2.5, 1.5e300, -0.0, 5e-324, 0.1)[ctx.choice(7, "r64")]
    else:
        n = _strlen(ctx, maxlen)
        salt = 1 + ctx.choice(200, "salt")
        if dtype == codec.VISIBLE_STRING:
            v = world.pattern(n, salt, text=True).decode("ascii")
            if v.endswith(" ") or v.endswith("\x00"):
                v = v[:-1] + "x"
        elif dtype == codec.UNICODE_STRING:
            v = "".join(chr(0x21 + ((i * 37 + salt * 11) % 0x2F00)) for i in range(n // 2))
        else:
            v = world.pattern(n, salt)
    return v, codec.encode(dtype, v)


def _strlen(ctx, maxlen):
    k = ctx.choice(5, "lenmode")
    if k == 0:
        return ctx.choice(9, "len8")                # 0..8
    if k == 1:
        return ctx.choice(min(maxlen, 64) + 1, "len64")
    if k == 2:
        return (0, 1, 4, 5, 7, 8, 14, 15)[ctx.choice(8, "lenb")]
    if k == 3:
        return ctx.choice(30, "len30")
    return ctx.choice(maxlen + 1, "lenmax")


def gen_od(ctx, maxlen=64, nobj=None):
    """Random dictionary: variables, records, arrays; all data types; every
    combination of value sources.  Returns (ObjectDictionary, [Entry])."""
    od = canopen.ObjectDictionary()
    entries = []
    used = set()
    nobj = nobj or 2 + ctx.choice(8, "nobj")
    for _ in range(nobj):
        with ctx.span("odobj"):
            lo, hi = INDEX_POOLS[ctx.choice(len(INDEX_POOLS), "pool")]
            index = lo + ctx.choice(hi - lo + 1, "index")
            if index in used or 0x1400 <= index <= 0x1BFF or index == 0x1017:
                continue
            used.add(index)
            kind = ("var", "record", "array")[ctx.choice(3, "kind")]
            name = "Obj%04X" % index
            if kind == "var":
                e = _gen_entry(ctx, index, 0, None, maxlen)
                e.kind = "var"
                e.name = name
                od.add_object(_odvar(e, name))
                entries.append(e)
                continue
            n = 1 + ctx.choice(5, "members")
            cont = odm.ODRecord(name, index) if kind == "record" else odm.ODArray(name, index)
            e0 = Entry()
            e0.index, e0.sub, e0.dtype, e0.access = index, 0, codec.UNSIGNED8, "ro"
            e0.default = (n, bytes([n]))
            e0.value = e0.cb = e0.stored = None
            e0.kind = kind
            e0.name = "n"
            cont.add_member(_odvar(e0, "n"))
            entries.append(e0)
            arr_type = TYPES[ctx.choice(len(TYPES), "arrtype")]
            sub = 0
            for m in range(n):
                sub += 1 if kind == "array" else 1 + ctx.choice(3, "gap")
                e = _gen_entry(ctx, index, sub, arr_type if kind == "array" else None, maxlen)
                e.kind = kind
                e.name = "m%d" % sub
                cont.add_member(_odvar(e, e.name))
                entries.append(e)
            od.add_object(cont)
    return od, entries


def _gen_entry(ctx, index, sub, dtype, maxlen):
    e = Entry()
    e.index, e.sub = index, sub
    e.dtype = dtype if dtype is not None else TYPES[ctx.choice(len(TYPES), "dtype")]
    e.access = ACCESS[ctx.weighted(((5, 0), (2, 1), (2, 2), (1, 3)), "access")]
    mask = ctx.choice(16, "sources")        # bit0 default, bit1 parameter value, bit2 stored, bit3 callback
    e.default = gen_value(ctx, e.dtype, maxlen) if mask & 1 else None
    e.value = gen_value(ctx, e.dtype, maxlen) if mask & 2 else None
    e.stored = gen_value(ctx, e.dtype, maxlen) if mask & 4 else None
    e.cb = gen_value(ctx, e.dtype, maxlen) if mask & 8 else None
    return e


def _odvar(e, name):
    v = odm.ODVariable(name, e.index, e.sub)
    v.data_type = e.dtype
    v.access_type = e.access
    v.default = e.default[0] if e.default is not None else None
    v.value = e.value[0] if e.value is not None else None
    e.odvar = v
    return v


class ServerWorld:
    """Real LocalNode/SdoServer on a slave Network, driven by a RefSdoClient
    endpoint.  Frames reach the server through Network.notify (exceptions that
    escape are recorded in bus.rx_errors)."""

    def __init__(self, ctx, od, entries, node_id):
        self.ctx = ctx
        self.ch = world.make_channel(ctx, swarm=False)
        self.net, self.bus = world.make_network(ctx, self.ch, "slave", via_notify=True)
        self.local = canopen.LocalNode(node_id, od)
        self.net.add_node(self.local)
        self.ep = PeerEndpoint(self.ch, "client")
        self.client = RefSdoClient(ctx, self.ep, 0x600 + node_id, 0x580 + node_id)
        self.entries = {(e.index, e.sub): e for e in entries}
        self.wlog = []      # write callback invocations (index, sub, bytes)
        self.cb_objects = {}    # bytearrays owned by the application and handed out by the read callback
        self.rlog = 0
        self.refuse_once = set()    # (index, sub): the application's read callback refuses the next read of this entry (raises SdoAbortedError) once
        self.sibling_hook = None    # (key A, key B, bytes): when A is written, the write callback writes B through the node's own SDO API, once
        self.local.add_write_callback(self._on_write)
        self.local.add_read_callback(self._on_read)
        for e in entries:
            if e.stored is not None:
                self.local.data_store.setdefault(e.index, {})[e.sub] = e.stored[1]

    def _on_write(self, index, subindex, od, data):
        self.wlog.append((index, subindex, bytes(data)))
        h = self.sibling_hook
        if h is not None and h[0] == (index, subindex):
            # an application callback that calls back into the library while the server is still handling the download
            self.sibling_hook = None
            self.local.sdo.download(h[1][0], h[1][1], h[2])

    def _on_read(self, index, subindex, od):
        self.rlog += 1
        if (index, subindex) in self.refuse_once:
            self.refuse_once.discard((index, subindex))
            from canopen.sdo.exceptions import SdoAbortedError
            raise SdoAbortedError(0x08000022)
        e = self.entries.get((index, subindex))
        if e is not None and e.cb is not None:
            # hand the application value over as python value, or - for byte
            # strings - as the application's own bytearray object (every time the same)
            if isinstance(e.cb[0], (bytes, bytearray)) and (e.index + e.sub) % 2:
                if (index, subindex) not in self.cb_objects:
                    self.cb_objects[(index, subindex)] = bytearray(e.cb[1])
                return self.cb_objects[(index, subindex)]
            return e.cb[0]
        return None

    def dyn_entry(self, index, sub):
        """Member `sub` of an array that the dictionary does not list: the library's ODArray
        creates it on demand from the array's first member (data type, access type, default -
        not the parameter value).  Returns the model entry (created on first use) or None."""
        e = self.entries.get((index, sub))
        if e is not None:
            return e
        t = self.entries.get((index, 1))
        if t is None or t.kind != "array" or not 0 < sub < 256:
            return None
        e = Entry()
        e.index, e.sub, e.dtype, e.access = index, sub, t.dtype, t.access
        e.default = t.default
        e.value = e.cb = e.stored = None
        e.kind = "array"
        e.name = "dyn%d" % sub
        e.odvar = None
        self.entries[(index, sub)] = e
        return e

    def store_snapshot(self):
        return {(i, s): bytes(d) for i, subs in self.local.data_store.items() for s, d in subs.items()}

    def model_store(self):
        return {k: e.stored[1] for k, e in self.entries.items() if e.stored is not None}
